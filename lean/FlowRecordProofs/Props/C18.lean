import FlowRecordProofs.Lemmas.KwCtor
import FlowRecordProofs.Lemmas.Sqlite
import FlowRecordProofs.Lemmas.SqliteSessions
import FlowRecordProofs.Lemmas.Readers
/-!
C18 — SQLite export keeps every record, independent of batch size.

Property theorems only (helpers: `Lemmas/Sqlite.lean`). The model is `FlowRecord/Model/Sqlite.lean`: the writer as
a state machine over `committed` (what another connection sees) and `work` (the writer's own view); histories are
lists of `write | flush | close` calls, `write` being `ensure` (DDL + commit for a new descriptor) then `insert`.
Runtime hypotheses (never axioms): `SqliteLaws` (type affinity), `IsoLaws` (ISO-8601 print/parse, C13), and the
reading of `committed` as "what a second connection observes" (SQLite's isolation) — all exercised by harness/props/C18.py.
`accepted … = true` says SQLite accepted every DDL statement of the history (no two columns equal up to case).
-/
open FlowRecord FlowRecord.Sqlite

/-- The writer's own view is the plain replay of the history (DDL for every write, then its insert) — whatever the
    batch size, the flushes and the `descriptors_seen` cache did. With `C18_atomic` this is DESIGN's
    "committed ++ pending = rows written so far". -/
theorem C18_work_is_replay {DT : Type} (E : Env DT) (b : Nat) (ops : List (Op DT))
    (hacc : accepted E.store [] (writesOf E ops) = true) :
    (run E (init b) ops).work = specTables E.store (writesOf E ops) :=
  run_work E ops (init b) rfl (by intro d hd; cases hd) hacc

/-- After `close` (anywhere in the history; later calls change nothing) everything is committed: another connection
    sees exactly the replayed tables, and in each of them one row per record written to a type of that name, in write
    order, each row holding the converted values under the record's field names. -/
theorem C18_close_complete {DT : Type} (E : Env DT) (b : Nat) (ops : List (Op DT))
    (hclose : ∃ pre suf, ops = pre ++ Op.close :: suf)
    (hacc : accepted E.store [] (writesOf E ops) = true) :
    (run E (init b) ops).committed = specTables E.store (writesOf E ops) ∧
    (run E (init b) ops).isOpen = false ∧
    ∀ n : Text, RowsStored E.store (writesFor n (writesOf E ops)) (rowsOf (run E (init b) ops).committed n) := by
  have hc : (run E (init b) ops).committed = specTables E.store (writesOf E ops) := by
    rw [run_committed_of_close E ops (init b) rfl hclose]
    exact C18_work_is_replay E b ops hacc
  refine ⟨hc, ?_, ?_⟩
  · obtain ⟨pre, suf, rfl⟩ := hclose
    rw [run_eq_runSteps]
    clear hc hacc
    -- the state after the first close is closed and frozen
    have : ∀ (pre : List (Op DT)) (s : St), (run E s (pre ++ Op.close :: suf)).isOpen = false := by
      intro pre
      induction pre with
      | nil =>
        intro s
        have hcl : (apply E s Op.close).1.isOpen = false := by simp [apply, step]
        simp only [List.nil_append, run_cons]
        rw [run_closed E suf _ hcl]; exact hcl
      | cons op pre ih => intro s; exact ih _
    rw [← run_eq_runSteps]; exact this pre _
  · intro n
    rw [hc]
    obtain ⟨rows, hr, hs⟩ := rowsOf_foldl E.store n (writesOf E ops) []
    have : rowsOf (specTables E.store (writesOf E ops)) n = rows := by
      simpa [specTables, rowsOf, optRows] using hr
    rw [this]; exact hs

/-- Batch-size independence: for every history containing a `close` and any two batch sizes ≥ 1 (Python raises
    ZeroDivisionError for 0), the final committed databases are identical — tables, columns and rows. No assumption
    about the history (refused values, refused DDL, writes after close included). -/
theorem C18_batch_independent {DT : Type} (E : Env DT) (b₁ b₂ : Nat) (_h₁ : 1 ≤ b₁) (_h₂ : 1 ≤ b₂)
    (ops : List (Op DT)) (hclose : ∃ pre suf, ops = pre ++ Op.close :: suf) :
    (run E (init b₁) ops).committed = (run E (init b₂) ops).committed := by
  rw [run_committed_of_close E ops (init b₁) rfl hclose, run_committed_of_close E ops (init b₂) rfl hclose]
  rw [run_eq_runSteps, run_eq_runSteps]
  exact (runSteps_sameCore E (expand ops) (init b₁) (init b₂) ⟨rfl, rfl, rfl, rfl⟩).1

/-- …and at *every* point of every history the writer's own view, the descriptor cache, the open flag and the record
    count do not depend on the batch size (only the moment of visibility does). -/
theorem C18_batch_independent_view {DT : Type} (E : Env DT) (b₁ b₂ : Nat) (ops : List (Op DT)) :
    (run E (init b₁) ops).work = (run E (init b₂) ops).work ∧
    (run E (init b₁) ops).count = (run E (init b₂) ops).count := by
  rw [run_eq_runSteps, run_eq_runSteps]
  have := runSteps_sameCore E (expand ops) (init b₁) (init b₂) ⟨rfl, rfl, rfl, rfl⟩
  exact ⟨this.1, this.2.2.2⟩

/-- Atomic visibility. At every point of every history — between calls and inside `write` between its DDL and its
    INSERT (`ms` is any sequence of steps; a history of calls is `expand ops`) — what another connection sees is the
    writer's view as it was right after the most recent commit point, and no later step has committed. Commit points
    are exactly `commits`: flush, close, the DDL of a new descriptor, every `batch`-th successful insert. Before the
    first commit point the database is empty. So a reader sees whole transactions only. -/
theorem C18_atomic {DT : Type} (E : Env DT) (b : Nat) (ms : List (Step DT)) :
    (quiet E (init b) ms = true ∧ (runSteps E (init b) ms).committed = []) ∨
    (∃ p m suf, ms = (p ++ [m]) ++ suf ∧ commits E (runSteps E (init b) p) m = true ∧
      (runSteps E (init b) ms).committed = (runSteps E (init b) (p ++ [m])).work ∧
      quiet E (runSteps E (init b) (p ++ [m])) suf = true) :=
  visible_from E ms (init b)

/-- The same for a history of public calls. -/
theorem C18_atomic_calls {DT : Type} (E : Env DT) (b : Nat) (ops : List (Op DT)) :
    (quiet E (init b) (expand ops) = true ∧ (run E (init b) ops).committed = []) ∨
    (∃ p m suf, expand ops = (p ++ [m]) ++ suf ∧ commits E (runSteps E (init b) p) m = true ∧
      (run E (init b) ops).committed = (runSteps E (init b) (p ++ [m])).work ∧
      quiet E (runSteps E (init b) (p ++ [m])) suf = true) := by
  rw [run_eq_runSteps]; exact C18_atomic E b (expand ops)

/-- …and, table by table, the rows another connection sees are a prefix of the rows the writer has inserted so far
    (`committed ++ pending = written so far`): nothing is visible that was not written, in the order written. -/
theorem C18_visible_is_prefix {DT : Type} (E : Env DT) (b : Nat) (ms : List (Step DT)) (n : Text) :
    ∃ pending, rowsOf (runSteps E (init b) ms).work n = rowsOf (runSteps E (init b) ms).committed n ++ pending :=
  committed_prefix E ms (init b) (fun _ => ⟨[], rfl⟩) n

/-- Schema ⊇: after any history, for every descriptor handed to `write` before the first close, the name resolves to
    a table and every table it resolves to has a column for every field of that descriptor (so a type of the same
    name that gained fields got its columns added). -/
theorem C18_schema {DT : Type} (E : Env DT) (b : Nat) (ops : List (Op DT))
    (hacc : accepted E.store [] (writesOf E ops) = true) :
    ∀ w ∈ writesOf E ops,
      (∃ t ∈ (run E (init b) ops).work, sameIdent t.name w.1.name = true) ∧
      ∀ t ∈ (run E (init b) ops).work, sameIdent t.name w.1.name = true → ∀ f ∈ w.1.fields, f.1 ∈ colNames t := by
  intro w hw
  rw [C18_work_is_replay E b ops hacc]
  exact covered_foldl (writesOf E ops) [] w hw

/-- When does SQLite accept every DDL statement of a history (the hypothesis `accepted` above)? Whenever the field
    names occurring in it — reserved fields included — are pairwise different up to ASCII case, no descriptor
    repeats a field name, and no type name begins with `sqlite_` (any case), the prefix SQLite reserves for its own
    tables. (The complement is two recorded findings: `a` and `A` in one type are refused, and so is a record type
    called `sqlite_x/y` — see `C18_reserved_prefix_refused`.) -/
theorem C18_accepted_of_case_distinct_fields {DT : Type} (E : Env DT) (ops : List (Op DT)) (U : List Text)
    (hU : ∀ a ∈ U, ∀ b ∈ U, sameIdent a b = true → a = b)
    (hfields : ∀ w ∈ writesOf E ops, (w.1.fields.map (·.1)).Nodup ∧ ∀ f ∈ w.1.fields, f.1 ∈ U)
    (hnames : ∀ w ∈ writesOf E ops, reservedName w.1.name = false) :
    accepted E.store [] (writesOf E ops) = true :=
  accepted_of_caseDistinct U hU E.store (writesOf E ops) [] (by intro t ht; cases ht) hfields hnames

/-- Recorded finding: a record type whose name begins with `sqlite_` (ASCII-case-insensitively) — a valid record type
    name — is refused by every writer state, whatever else the history holds: the first write of such a type is an
    OperationalError. -/
theorem C18_reserved_prefix_refused {DT : Type} (E : Env DT) (s : St) (d : Desc) (vals : List (PyVal DT))
    (hopen : s.isOpen = true) (hnew : s.seen.contains d = false) (hres : reservedName d.name = true) :
    (apply E s (.write d vals)).2 = .refused .ddl := by
  have hk : ddlOk s.work d = false := by simp [ddlOk, hres]
  have hnew' : d ∉ s.seen := by simpa using hnew
  simp [apply, step, hopen, hnew', hk]

/-- Quoting: for every name over the character set of valid type/field names (ASCII letters, digits, `_`, `/`) the
    identifier as embedded in the SQL text (`"name"`) is read back by the SQL lexer as exactly that name, and the rest
    of the statement is left alone — no name can close the quotes early. (`rest` is what follows in the statement;
    the adapter continues with a space, `,` or `)`, never with another quote.) -/
theorem C18_quote (n rest : Text) (hn : ∀ c ∈ n, nameChar c = true) (hrest : rest.head? ≠ some 34) :
    lexQuotedIdent (quoteIdent n ++ rest) = some (n, rest) ∧ (∀ c ∈ n, c ≠ 34) := by
  have hq : ∀ c, nameChar c = true → c ≠ 34 := by
    intro c hc h; subst h; simp [nameChar] at hc
  refine ⟨?_, fun c hc => hq c (hn c hc)⟩
  simp only [quoteIdent, lexQuotedIdent, List.cons_append, if_true]
  induction n with
  | nil =>
    cases rest with
    | nil => exact lexQuotedBody_end_nil
    | cons c2 r =>
      have : c2 ≠ 34 := by intro h; subst h; simp at hrest
      exact lexQuotedBody_end_cons c2 r this
  | cons c n ih =>
    have hc : c ≠ 34 := hq c (hn c List.mem_cons_self)
    simp only [List.cons_append]
    rw [lexQuotedBody_other c _ hc, ih (fun c' hc' => hn c' (List.mem_cons_of_mem _ hc'))]
    rfl

/-- The character-set hypothesis of `C18_quote` is needed: a name containing `"` is cut short by the lexer. -/
theorem C18_quote_needs_grammar :
    lexQuotedIdent (quoteIdent [97, 34, 98] ++ [32]) = some ([97], [98, 34, 32]) := by decide

/-- Value round trip through writer, storage and reader, per field type (column and reader types taken from the
    extracted `FIELD_MAP` / `SQLITE_FIELD_MAP`): text, integers in [−2^63, 2^63), floats that are not NaN (opaque bit
    patterns; -0.0 comes back as +0.0), bytes, timestamps (ISO text, `IsoLaws`) and None come back as written. -/
theorem C18_values {DT : Type} (iso : DT → Text) (parse : Text → Option DT) (store : String → DbVal → DbVal)
    (L : SqliteLaws store) (I : IsoLaws iso parse store) :
    (∀ ft ∈ ["string", "wstring", "uri"], ∀ s : Text, s.any isSurrogate = false →
      (dbValue iso (.str s)).toOption.bind (fun x => readCell parse (readerType (colType ft)) (store (colType ft) x))
        = some (.str s)) ∧
    (∀ ft ∈ ["varint", "filesize", "uint32"], ∀ i : Int, int64Min ≤ i → i ≤ int64Max →
      (dbValue iso (.int i)).toOption.bind (fun x => readCell parse (readerType (colType ft)) (store (colType ft) x))
        = some (.int i)) ∧
    (∀ bits : Nat, isNaN bits = false → bits ≠ negZero →
      (dbValue iso (.float bits)).toOption.bind
        (fun x => readCell parse (readerType (colType "float")) (store (colType "float") x)) = some (.float bits)) ∧
    ((dbValue iso (PyVal.float negZero : PyVal DT)).toOption.bind
        (fun x => readCell parse (readerType (colType "float")) (store (colType "float") x)) = some (.float 0)) ∧
    (∀ bs : Bytes,
      (dbValue iso (.bytes bs)).toOption.bind
        (fun x => readCell parse (readerType (colType "bytes")) (store (colType "bytes") x)) = some (.bytes bs)) ∧
    (∀ d : DT,
      (dbValue iso (.datetime d)).toOption.bind
        (fun x => readCell parse (readerType (colType "datetime")) (store (colType "datetime") x))
        = some (.datetime d)) ∧
    (∀ ft ∈ ["string", "wstring", "uri", "varint", "filesize", "uint32", "float", "bytes", "datetime", "boolean"],
      (dbValue iso (PyVal.none : PyVal DT)).toOption.bind
        (fun x => readCell parse (readerType (colType ft)) (store (colType ft) x)) = some .none) := by
  have cS : ∀ ft ∈ ["string", "wstring", "uri"], colType ft = "TEXT" := by decide
  have cI : ∀ ft ∈ ["varint", "filesize", "uint32"], colType ft = "BIGINT" ∨ colType ft = "INTEGER" := by decide
  have rT : readerType "TEXT" = "string" := by decide
  have rB : readerType "BIGINT" = "varint" := by decide
  have rI : readerType "INTEGER" = "varint" := by decide
  have cF : colType "float" = "REAL" := by decide
  have rF : readerType "REAL" = "float" := by decide
  have cB : colType "bytes" = "BLOB" := by decide
  have rBl : readerType "BLOB" = "bytes" := by decide
  have cD : colType "datetime" = "TIMESTAMPTZ" := by decide
  have rD : readerType "TIMESTAMPTZ" = "datetime" := by decide
  refine ⟨?_, ?_, ?_, ?_, ?_, ?_, ?_⟩
  · intro ft hft s hs
    simp [dbValue, hs, cS ft hft, rT, L.text_kept, readCell, Except.toOption]
  · intro ft hft i h1 h2
    rcases cI ft hft with h | h
    · simp [dbValue, h1, h2, h, rB, L.int_kept "BIGINT" i (Or.inr rfl), readCell, Except.toOption]
    · simp [dbValue, h1, h2, h, rI, L.int_kept "INTEGER" i (Or.inl rfl), readCell, Except.toOption]
  · intro bits hb hz
    simp [dbValue, hb, cF, rF, L.real_kept bits hz, readCell, Except.toOption]
  · have hn : isNaN negZero = false := by decide
    simp [dbValue, hn, cF, rF, L.negzero, readCell, Except.toOption]
  · intro bs
    simp [dbValue, cB, rBl, L.blob_kept, readCell, Except.toOption]
  · intro d
    simp [dbValue, cD, rD, I.iso_kept, I.parse_iso, readCell, Except.toOption]
  · intro ft _
    simp [dbValue, L.null_kept, readCell, Except.toOption]

/-- Other field types (no entry in `FIELD_MAP`: column type TEXT) come back as their text form: `str(value)` for
    objects, the decimal digits for integers (uint16, ports, file modes, …). A boolean comes back as the integer 0/1. -/
theorem C18_values_other {DT : Type} (iso : DT → Text) (parse : Text → Option DT) (store : String → DbVal → DbVal)
    (L : SqliteLaws store) :
    (∀ ft : String, Gen.SQLITE_COLUMN_TYPE_MAP.lookup ft = none →
      (∀ s : Text, s.any isSurrogate = false →
        (dbValue iso (PyVal.other s : PyVal DT)).toOption.bind
          (fun x => readCell parse (readerType (colType ft)) (store (colType ft) x)) = some (.str s)) ∧
      (∀ i : Int, int64Min ≤ i → i ≤ int64Max →
        (dbValue iso (PyVal.int i : PyVal DT)).toOption.bind
          (fun x => readCell parse (readerType (colType ft)) (store (colType ft) x)) = some (.str (decimal i)))) ∧
    (∀ bv : Bool,
      (dbValue iso (PyVal.bool bv : PyVal DT)).toOption.bind
        (fun x => readCell parse (readerType (colType "boolean")) (store (colType "boolean") x))
        = some (.int (if bv then 1 else 0))) := by
  have rT : readerType "TEXT" = "string" := by decide
  have cB : colType "boolean" = "INTEGER" := by decide
  have rI : readerType "INTEGER" = "varint" := by decide
  refine ⟨?_, ?_⟩
  · intro ft hft
    have hc : colType ft = "TEXT" := by simp [colType, hft]
    constructor
    · intro s hs
      simp [dbValue, hs, hc, rT, L.text_kept, readCell, Except.toOption]
    · intro i h1 h2
      simp [dbValue, h1, h2, hc, rT, L.int_as_text, readCell, Except.toOption]
  · intro bv
    simp [dbValue, cB, rI, L.int_kept "INTEGER" _ (Or.inl rfl), readCell, Except.toOption]

/-- Refusals are loud and lose nothing else: a value SQLite cannot take (integer outside 64 bits, lone surrogate)
    makes `write` raise, the row is not stored, the record count is not advanced and the open transaction keeps
    every earlier row. -/
theorem C18_refusal_keeps_pending {DT : Type} (E : Env DT) (s : St) (d : Desc) (vals : List (PyVal DT)) (r : Refusal)
    (hv : dbValues E.iso vals = .error r) :
    (step E s (.insert d vals)).1 = s ∧ (s.isOpen = true → vals.length = d.fields.length →
      (step E s (.insert d vals)).2 = .refused r) := by
  cases ho : s.isOpen with
  | false => simp [step, ho]
  | true =>
    by_cases ha : vals.length = d.fields.length <;> simp [step, ho, ha, hv]

/-- "One table per record type name" at full strength: after close every descriptor written has a table carrying
    exactly its name, holding exactly the records written under exactly that name. -/
def C18_one_table_per_type_statement : Prop :=
  ∀ (E : Env Unit) (b : Nat) (ops : List (Op Unit)),
    (∃ pre suf, ops = pre ++ Op.close :: suf) → accepted E.store [] (writesOf E ops) = true →
    ∀ w ∈ writesOf E ops, ∃ t ∈ (run E (init b) ops).committed, t.name = w.1.name ∧
      t.rows.length = ((writesOf E ops).filter (fun w' => w'.1.name == w.1.name && w'.2.isSome)).length

/-- False of model and code: SQLite resolves table names case-insensitively, so `t/c` and `T/C` share the table
    created first (known finding, replayed on the real code by the harness). -/
theorem C18_one_table_per_type_counterexample : ¬ C18_one_table_per_type_statement := by
  intro h
  let E : Env Unit := { iso := fun _ => [], store := affinityStore }
  let d1 : Desc := { name := [116, 47, 99], fields := [([120], "string")] }
  let d2 : Desc := { name := [84, 47, 67], fields := [([120], "string")] }
  let ops : List (Op Unit) := [.write d1 [.none], .write d2 [.none], .close]
  have := h E 1 ops ⟨[.write d1 [.none], .write d2 [.none]], [], rfl⟩ (by decide) (d2, some [([120], .null)]) (by decide)
  revert this
  decide

/-- What holds instead, for all histories: rows are grouped by the name *up to ASCII case* (this is the third
    conjunct of `C18_close_complete`). When the type names of the history are pairwise different up to case, that is
    one table per type name carrying exactly its name and its records. -/
theorem C18_one_table_per_type_partial {DT : Type} (E : Env DT) (b : Nat) (ops : List (Op DT))
    (hclose : ∃ pre suf, ops = pre ++ Op.close :: suf)
    (hacc : accepted E.store [] (writesOf E ops) = true)
    (hdistinct : ∀ w ∈ writesOf E ops, ∀ w' ∈ writesOf E ops, sameIdent w.1.name w'.1.name = true → w.1.name = w'.1.name) :
    ∀ w ∈ writesOf E ops, ∃ t ∈ (run E (init b) ops).committed, t.name = w.1.name ∧
      RowsStored E.store (writesFor w.1.name (writesOf E ops)) t.rows := by
  intro w hw
  obtain ⟨hc, _, hrows⟩ := C18_close_complete E b ops hclose hacc
  have hcov := (C18_schema E b ops hacc w hw).1
  rw [C18_work_is_replay E b ops hacc, ← hc] at hcov
  obtain ⟨t0, ht0, hs0⟩ := hcov
  have hsome : ((run E (init b) ops).committed.find? (fun t => sameIdent t.name w.1.name)).isSome = true :=
    List.find?_isSome.mpr ⟨t0, ht0, hs0⟩
  obtain ⟨t, ht⟩ := Option.isSome_iff_exists.mp hsome
  have htm : t ∈ (run E (init b) ops).committed := List.mem_of_find?_eq_some ht
  have hts : sameIdent t.name w.1.name = true := by simpa using List.find?_some ht
  refine ⟨t, htm, ?_, ?_⟩
  · rw [hc] at htm
    rcases foldl_names (writesOf E ops) [] t htm with ⟨t1, h1, _⟩ | ⟨w', hw', hn⟩
    · cases h1
    · rw [hn] at hts ⊢
      exact (hdistinct w' hw' w hw hts)
  · have := hrows w.1.name
    simpa [rowsOf, ht, optRows] using this

/-- Several writer sessions on one database file (each closed before the next opens, a later session re-issuing the
    DDL because it has seen no descriptor yet): what another connection sees at the end is the plain replay of the
    writes of ALL sessions, whatever the batch size — nothing an earlier session stored is lost or duplicated when the
    file is opened for writing again. -/
theorem C18_sessions_replay {DT : Type} (E : Env DT) (b : Nat) (ss : List (List (Op DT)))
    (hacc : accepted E.store [] (sessionWrites E ss) = true) :
    (runSessions E (noWriter b) ss).committed = specTables E.store (sessionWrites E ss) :=
  runSessions_committed E ss (noWriter b) hacc

/-- Cutting a history into sessions changes nothing: sessions without an inner `close` store exactly what ONE writer
    (of any batch size) stores for the concatenated history. -/
theorem C18_sessions_like_one_writer {DT : Type} (E : Env DT) (b b' : Nat) (ss : List (List (Op DT)))
    (hnc : ∀ ops ∈ ss, Op.close ∉ ops)
    (hacc : accepted E.store [] (writesOf E ss.flatten) = true) :
    (runSessions E (noWriter b) ss).committed = (run E (init b') (ss.flatten ++ [.close])).committed := by
  have hw := flatMap_writesOf_of_no_close E ss hnc
  rw [C18_sessions_replay E b ss (by rw [hw]; exact hacc), hw]
  have h2 := (C18_close_complete E b' (ss.flatten ++ [.close]) ⟨ss.flatten, [], rfl⟩
    (by rw [writesOf_append_close]; exact hacc)).1
  rw [h2, writesOf_append_close]

-- Non-vacuity: concrete histories meet the hypotheses and exercise batching, evolution and refusals.
/-- Reading is independent of the reader's batch size, with or without a selector: `read_table` fetches
    `batch_size` rows at a time and stops at the first EMPTY fetch (`Gen.sqliteReadTableBatches`), and the selector is
    consulted in `__iter__`, after the batches, not inside the fetch loop (`Gen.sqliteReadTableConsultsSelector = false`: a
    batch without a single match is not the end of the table). So for every batch size >= 1, every database (tables of
    rows), every row decoder and every selector, the reader yields what it yields when each table is fetched in one
    piece - and with a selector that is exactly: read everything, filter afterwards. -/
theorem C18_reader_independent_of_batch_size {X R E : Type} (mk : X → Except E R)
    (sel : Option (Readers.Matcher R E)) (tables : List (List X)) (batch : Nat) (hb : 1 ≤ batch) :
    Gen.sqliteReadTableBatches = true ∧ Gen.sqliteReadTableConsultsSelector = false ∧
    Readers.sqliteLoop Readers.genCfg.sqliteGuarded mk sel (tables.map (Readers.tableBatches batch)) =
      Readers.sqliteLoop Readers.genCfg.sqliteGuarded mk sel (tables.map fun rows => [rows]) := by
  refine ⟨by decide, by decide, ?_⟩
  simp only [Readers.sqliteLoop]
  congr 1
  induction tables with
  | nil => rfl
  | cons t ts ih =>
    simp only [List.map_cons, List.flatMap_cons, ih]
    congr 1
    have := Readers.tableBatches_flatten batch hb t
    simpa [List.flatMap_id'] using this

namespace C18_nonvacuous
example : Readers.tableBatches 2 [1, 2, 3, 4, 5] = [[1, 2], [3, 4], [5]] := by decide
def E : Env Unit := { iso := fun _ => [50, 48], store := affinityStore }
def dA : Desc := { name := [116, 47, 97], fields := [([115], "string"), ([110], "varint")] }
def dA2 : Desc := { name := [116, 47, 97], fields := [([115], "string"), ([110], "varint"), ([98], "bytes")] }
def dB : Desc := { name := [116, 47, 98], fields := [([116, 115], "datetime")] }
def hist : List (Op Unit) :=
  [.write dA [.str [120], .int 1], .write dA [.str [121], .int 2], .write dA [.str [122], .int (2 ^ 63)],
   .write dA2 [.str [119], .int 3, .bytes [0, 1]], .write dB [.datetime ()], .flush, .write dA [.none, .none], .close,
   .write dA [.none, .none]]
example : accepted E.store [] (writesOf E hist) = true := by decide
example : ∃ pre suf, hist = pre ++ Op.close :: suf := ⟨hist.take 7, hist.drop 8, by decide⟩
-- batch size 2: after the second write both rows are visible, after the third call (refused: 2^63) still two
example : ((trace E (init 2) hist).map (fun r => (r.1.committed.map (fun t => t.rows.length), r.2))) =
    [([0], .ok), ([2], .ok), ([2], .refused .overflow), ([2], .ok), ([3, 1], .ok), ([3, 1], .ok), ([3, 1], .ok),
     ([4, 1], .ok), ([4, 1], .refused .closed)] := by decide
example : (run E (init 2) hist).committed = (run E (init 1000) hist).committed := by decide
example : ((run E (init 7) hist).committed.map (fun t => (t.name, colNames t))) =
    [([116, 47, 97], [[115], [110], [98]]), ([116, 47, 98], [[116, 115]])] := by decide
-- a history SQLite refuses (columns `a` and `A`) does not meet `accepted`
example : accepted E.store [] (writesOf E [Op.write { name := [116], fields := [([97], "string"), ([65], "string")] }
    [.none, .none]]) = false := by decide
-- the reserved prefix: `SQLite_x` is refused, `sqlite/page` and `sqlitex` are ordinary names
example : reservedName [83, 81, 76, 105, 116, 101, 95, 120] = true := by decide
example : reservedName [115, 113, 108, 105, 116, 101, 47, 112] = false := by decide
example : accepted E.store [] (writesOf E [Op.write { name := [115, 113, 108, 105, 116, 101, 95, 120], fields := [([97], "string")] }
    [.none]]) = false := by decide
example : SqliteLaws affinityStore := affinityStore_laws
-- three sessions: the type gains a field in the second, the third adds a row of the first layout
def sess : List (List (Op Unit)) :=
  [[.write dA [.str [120], .int 1], .write dB [.datetime ()]], [.write dA2 [.str [119], .int 3, .bytes [0, 1]]],
   [.write dA [.none, .int (2 ^ 63)], .write dA [.str [121], .int 2]]]
example : accepted E.store [] (sessionWrites E sess) = true := by decide
example : ∀ ops ∈ sess, Op.close ∉ ops := by decide
example : ((runSessions E (noWriter 2) sess).committed.map (fun t => (t.name, colNames t, t.rows.length))) =
    [([116, 47, 97], [[115], [110], [98]], 3), ([116, 47, 98], [[116, 115]], 1)] := by decide
end C18_nonvacuous


/-- READERS BUILD RECORDS BY KEYWORD: for record types with a field named like a Python keyword the generated
    constructor assigns `kwargs.get(k, v)` - a value handed over by keyword is the slot's value also when it is falsy
    (0, "", False, an empty list), and `_unpack` tests `is not None`. The template text is regenerated from the source
    and must equal the frozen text this meaning belongs to. -/
theorem C18_keyword_constructor_keeps_values {V : Type} (x pos : V) :
    (FlowRecord.Gen.tplKwInit = FlowRecord.KwCtor.frozenInit ∧ FlowRecord.Gen.tplKwUnpack = FlowRecord.KwCtor.frozenUnpack) ∧
    FlowRecord.KwCtor.slotValue (some x) pos = x ∧ FlowRecord.KwCtor.slotValue (none : Option V) pos = pos :=
  ⟨FlowRecord.KwCtor.template_is_frozen, rfl, rfl⟩
