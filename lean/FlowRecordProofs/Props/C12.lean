import FlowRecordProofs.Lemmas.Equality
import FlowRecordProofs.Lemmas.FieldPack
/-!
C12 — record equality and hashing obey the value-object contract.
Property theorems only. Everything is stated for EVERY primitive equality `E` / hash `H` that satisfy CPython's
contract (`HashLaws`: a hypothesis structure), every way of combining hashes `C`, every digest function `h` behind
the descriptor identifier, every ignored-field set `ig` and every tree of packed values (plain, nested, grouped).
-/
open FlowRecord FlowRecord.Descriptor FlowRecord.Equality

/-- EQUALITY, exactly: two records are `==` iff their identifiers `(name, hash)` are equal and their packed values
    on the non-ignored slots are pairwise `==`. -/
theorem C12_eq_iff {P : Type} (E : P → P → Bool) (h : Str → Nat) (ig : List Str) (da db : Desc) (va vb : List (Val P)) :
    recEq E h ig (.record da va) (.record db vb) = true ↔
      identifier h da = identifier h db ∧
      Pairwise2 (fun x y => veq E h x y = true) (keep ig (slots da) (norms ig va)) (keep ig (slots db) (norms ig vb)) := by
  simp only [recEq, norm, veq, Bool.and_eq_true, beq_iff_eq, veqs_iff]

/-- … for grouped records: same group name and members pairwise `==` (each member compared as a record, with the
    same ignored set). A grouped record never equals a plain record. -/
theorem C12_eq_iff_grouped {P : Type} (E : P → P → Bool) (h : Str → Nat) (ig : List Str) (na nb : Str)
    (ma mb : List (Val P)) (d : Desc) (vs : List (Val P)) :
    (recEq E h ig (.grouped na ma) (.grouped nb mb) = true ↔
      na = nb ∧ Pairwise2 (fun x y => veq E h x y = true) (norms ig ma) (norms ig mb)) ∧
    recEq E h ig (.grouped na ma) (.record d vs) = false ∧ recEq E h ig (.record d vs) (.grouped na ma) = false := by
  refine ⟨?_, ?_, ?_⟩
  · simp only [recEq, norm, veq, Bool.and_eq_true, beq_iff_eq, veqs_iff]
  · simp [recEq, norm, veq]
  · simp [recEq, norm, veq]

/-- REFLEXIVE: every record (plain, nested, grouped, any field values) equals itself, under every ignored set. -/
theorem C12_eq_refl {P : Type} (E : P → P → Bool) (H : P → Option Nat) (L : HashLaws E H) (h : Str → Nat)
    (ig : List Str) (a : Val P) : recEq E h ig a a = true :=
  veq_refl E h L.refl (norm ig a)

/-- SYMMETRIC: `a == b` and `b == a` always agree. -/
theorem C12_eq_symm {P : Type} (E : P → P → Bool) (H : P → Option Nat) (L : HashLaws E H) (h : Str → Nat)
    (ig : List Str) (a b : Val P) : recEq E h ig a b = recEq E h ig b a :=
  veq_symm E h L.symm (norm ig a) (norm ig b)

/-- EQUAL ⇒ EQUAL HASH, under the same ignored set (the code passes the one global to both). -/
theorem C12_hash_respects_eq {P : Type} (E : P → P → Bool) (H : P → Option Nat) (L : HashLaws E H) (C : Combine)
    (h : Str → Nat) (ig : List Str) (a b : Val P) (heq : recEq E h ig a b = true) :
    hashRec H C h ig a = hashRec H C h ig b :=
  veq_hash E H C h L.hash_eq (norm ig a) (norm ig b) heq

/-- HASH IS TOTAL: if every primitive leaf (and dict key) is hashable — str, int, float, bytes, bool, None,
    datetime are — then `hash(record)` never raises, however deep lists, dicts, nested and grouped records nest. -/
theorem C12_hash_total {P : Type} (H : P → Option Nat) (C : Combine) (h : Str → Nat) (ig : List Str) (a : Val P)
    (hl : hashable H a = true) : (hashRec H C h ig a).isSome = true :=
  vhash_isSome H C h (norm ig a) (hashable_norm H ig a hl)

/-- "Same descriptor" in the code is "same identifier". Where the digest does not collide on the pair, the two
    coincide: equal records have the same descriptor. -/
theorem C12_eq_same_descriptor {P : Type} (E : P → P → Bool) (h : Str → Nat) (ig : List Str) (da db : Desc)
    (va vb : List (Val P)) (hinj : identifier h da = identifier h db → da = db) :
    recEq E h ig (.record da va) (.record db vb) = true ↔
      da = db ∧ Pairwise2 (fun x y => veq E h x y = true) (keep ig (slots da) (norms ig va)) (keep ig (slots db) (norms ig vb)) := by
  rw [C12_eq_iff]
  constructor
  · rintro ⟨hi, hv⟩; exact ⟨hinj hi, hv⟩
  · rintro ⟨hd, hv⟩; exact ⟨by rw [hd], hv⟩

/-- Full-strength claim "equal records have the same descriptor" (no hypothesis on the digest). -/
def C12_eq_implies_same_descriptor_statement : Prop :=
  ∀ (h : Str → Nat) (da db : Desc) (va vb : List (Val Nat)),
    recEq (fun a b => a == b) h [] (.record da va) (.record db vb) = true → da = db

namespace C12_collision
/-- `t/x[(stringlist,a),(string,b)]` and `t/x[(string,a),(string,listb)]`: the digest input is an unseparated
    concatenation, so the two have the same identifier for EVERY digest function. -/
def d1 : Desc := ⟨cps "t/x", [(cps "stringlist", cps "a"), (cps "string", cps "b")]⟩
def d2 : Desc := ⟨cps "t/x", [(cps "string", cps "a"), (cps "string", cps "listb")]⟩
/-- all six slots unset (None = primitive 0) -/
def nones : List (Val Nat) := List.replicate 6 (.prim 0)
end C12_collision

/-- The colliding pair, for EVERY digest function `h`: equal identifiers, different descriptors, and — with all
    fields unset — equal records with equal hashes. -/
theorem C12_collision_for_every_digest (h : Str → Nat) (C : Combine) :
    identifier h C12_collision.d1 = identifier h C12_collision.d2 ∧ C12_collision.d1 ≠ C12_collision.d2 ∧
    recEq (fun a b => a == b) h [] (.record C12_collision.d1 C12_collision.nones)
      (.record C12_collision.d2 C12_collision.nones) = true ∧
    hashRec (fun a => some a) C h [] (.record C12_collision.d1 C12_collision.nones) =
      hashRec (fun a => some a) C h [] (.record C12_collision.d2 C12_collision.nones) := by
  have hin : hashInput C12_collision.d1 = hashInput C12_collision.d2 := by decide
  have hid : identifier h C12_collision.d1 = identifier h C12_collision.d2 := by
    simp only [identifier, hin]; rfl
  have heq : recEq (fun a b => a == b) h [] (.record C12_collision.d1 C12_collision.nones)
      (.record C12_collision.d2 C12_collision.nones) = true := by
    have e1 : keep [] (slots C12_collision.d1) (norms [] C12_collision.nones) = C12_collision.nones := rfl
    have e2 : keep [] (slots C12_collision.d2) (norms [] C12_collision.nones) = C12_collision.nones := rfl
    simp only [recEq, norm, veq, hid, Bool.and_eq_true, beq_iff_eq, true_and, e1, e2]
    exact veqs_refl _ h (by simp) _
  refine ⟨hid, by decide, heq, ?_⟩
  exact veq_hash _ _ C h (by intro a b hab; simp at hab; rw [hab]) _ _ heq

/-- Hence the full-strength claim is false of model and code (replayed on the real code by the harness). -/
theorem C12_eq_implies_same_descriptor_counterexample : ¬ C12_eq_implies_same_descriptor_statement := by
  intro hs
  have h := C12_collision_for_every_digest (fun s => s.length) ⟨fun _ => 0, fun _ => 0, fun _ => 0, id⟩
  exact h.2.1 (hs _ _ _ _ _ h.2.2.1)

/-- SCOPED OVERRIDE IS UNDONE: whatever the state before, whatever the override, whatever happens inside the scope
    (further overrides, nested scopes to any depth, comparisons, an exception), after the scope the global equals the
    global before — on normal exit and on exit by exception (the exit kind is passed on unchanged). -/
theorem C12_scope_restores (st : St) (s : List Str) (body : List Cmd) :
    (exec1 st (.scope s body)).1.glob = st.glob ∧
    (exec1 st (.scope s body)).2 = (execs { st with glob := s } body).2 := by
  simp [exec1]

/-- The two functions `exec1` models are, in the current source, the ones it was written from: the setter rebinds the
    global to a fresh set (no in-place edit, no validation after the rebinding), the context manager saves, installs
    inside its `try`, restores in its `finally`. -/
theorem C12_scope_source_is_the_modelled_one :
    Gen.ignoreSetterBody = ignoreSetterFrozen ∧ Gen.ignoreScopeBody = ignoreScopeFrozen := by
  constructor <;> decide +kernel

/-- … inside the scope the override is in force: a comparison that is the first thing in the body reads `s`;
    and a comparison right after the scope reads the old global again. -/
theorem C12_scope_in_force (st : St) (s : List Str) (rest after : List Cmd) :
    (execs st (.scope s (.observe :: rest) :: after)).1.trace.take (st.trace.length + 1) = st.trace ++ [s] ∧
    (execs st [.scope s [], .observe]).1.trace = st.trace ++ [st.glob] := by
  constructor
  · have mono1 : ∀ (c : Cmd) (st : St), ∃ t, (exec1 st c).1.trace = st.trace ++ t := by
      intro c
      induction c using Cmd.rec (motive_2 := fun cs => ∀ st : St, ∃ t, (execs st cs).1.trace = st.trace ++ t) with
      | set s => intro st; exact ⟨[], by simp [exec1]⟩
      | raise => intro st; exact ⟨[], by simp [exec1]⟩
      | observe => intro st; exact ⟨[st.glob], by simp [exec1]⟩
      | scope s body ih =>
        intro st
        obtain ⟨t, ht⟩ := ih { st with glob := s }
        exact ⟨t, by simp only [exec1]; exact ht⟩
      | nil => exact ⟨[], by simp [execs]⟩
      | cons c cs ih1 ih2 =>
        rename_i st
        obtain ⟨t1, h1⟩ := ih1 st
        cases hx : exec1 st c with
        | mk st' ex =>
          rw [hx] at h1
          cases ex with
          | raised => exact ⟨t1, by simp only [execs, hx]; exact h1⟩
          | normal =>
            obtain ⟨t2, h2⟩ := ih2 st'
            exact ⟨t1 ++ t2, by simp only [execs, hx]; rw [h2, h1, List.append_assoc]⟩
    have monos : ∀ (cs : List Cmd) (st : St), ∃ t, (execs st cs).1.trace = st.trace ++ t := by
      intro cs
      induction cs with
      | nil => intro st; exact ⟨[], by simp [execs]⟩
      | cons c cs ih =>
        intro st
        obtain ⟨t1, h1⟩ := mono1 c st
        cases hx : exec1 st c with
        | mk st' ex =>
          rw [hx] at h1
          cases ex with
          | raised => exact ⟨t1, by simp only [execs, hx]; exact h1⟩
          | normal =>
            obtain ⟨t2, h2⟩ := ih st'
            exact ⟨t1 ++ t2, by simp only [execs, hx]; rw [h2, h1, List.append_assoc]⟩
    -- the first observation inside the scope appends `s`; everything later only appends
    obtain ⟨t, ht⟩ := monos (.scope s (.observe :: rest) :: after) st
    have hfirst : ∃ t', (execs st (.scope s (.observe :: rest) :: after)).1.trace = (st.trace ++ [s]) ++ t' := by
      simp only [execs, exec1]
      obtain ⟨t1, h1⟩ := monos rest { glob := s, trace := st.trace ++ [s] }
      cases hx : execs { glob := s, trace := st.trace ++ [s] } rest with
      | mk st' ex =>
        rw [hx] at h1
        simp only at h1
        cases ex with
        | raised => exact ⟨t1, by simpa using h1⟩
        | normal =>
          obtain ⟨t2, h2⟩ := monos after { st' with glob := st.glob }
          exact ⟨t1 ++ t2, by simp only; rw [h2]; simp only; rw [h1, List.append_assoc]⟩
    obtain ⟨t', ht'⟩ := hfirst
    rw [ht']
    have : st.trace.length + 1 = (st.trace ++ [s]).length := by simp
    rw [this, List.take_left']
    rfl
  · simp [execs, exec1]

-- Non-vacuity: a model of HashLaws, and concrete records / programs on both sides of each theorem.
namespace C12_nonvacuous
theorem laws : HashLaws (fun (a b : Nat) => a == b) (fun a => some a) :=
  ⟨by simp, by intro a b; exact Bool.beq_comm, by intro a b h; simp at h; rw [h]⟩
def comb : Combine := ⟨fun l => l.foldl (fun a b => 31 * a + b + 1) 7, fun l => l.foldl (· + ·) 0, fun s => s.length, id⟩
def dA : Desc := ⟨cps "t/a", [(cps "string", cps "s"), (cps "command", cps "c")]⟩
def r1 : Val Nat := .record dA [.prim 5, .seq true [.seq true [.prim 1, .seq false [.prim 2, .prim 3]], .prim 0],
  .prim 9, .prim 9, .prim 7, .prim 1]
def r2 : Val Nat := .record dA [.prim 6, .seq true [.seq true [.prim 1, .seq false [.prim 2, .prim 3]], .prim 0],
  .prim 9, .prim 9, .prim 7, .prim 1]
example : recEq (fun a b => a == b) (fun _ => 1) [] r1 r2 = false := by decide
example : recEq (fun a b => a == b) (fun _ => 1) [cps "s"] r1 r2 = true := by decide
example : (hashRec (fun a => some a) comb (fun _ => 1) [cps "s"] r1).isSome = true := by decide
example : hashRec (fun a => some a) comb (fun _ => 1) [cps "s"] r1 = hashRec (fun a => some a) comb (fun _ => 1) [cps "s"] r2 := by decide
example : recEq (fun a b => a == b) (fun _ => 1) [] (.grouped (cps "g") [r1, r2]) (.grouped (cps "g") [r1, r2]) = true := by decide
-- a hash function that is partial on some leaf: the hypothesis of C12_hash_total is needed
example : hashRec (fun a => if a = 3 then none else some a) comb (fun _ => 1) [] r1 = none := by decide
-- nested scopes, an inner override and an exception: the global is restored, the exit kind is passed on
example : execs ⟨[cps "x"], []⟩ [.scope [cps "a"] [.observe, .scope [cps "b"] [.set [cps "c"], .observe, .raise], .observe], .observe]
    = (⟨[cps "x"], [[cps "a"], [cps "c"]]⟩, .raised) := by decide
example : execs ⟨[cps "x"], []⟩ [.scope [cps "a"] [.observe, .scope [cps "b"] [.set [cps "c"], .observe], .observe], .observe]
    = (⟨[cps "x"], [[cps "a"], [cps "c"], [cps "a"], [cps "x"]]⟩, .normal) := by decide
end C12_nonvacuous


/-! ### field values and packed values
`Record.__eq__` compares PACKED values (`_pack()` of every field). That this is the comparison of the field values
themselves rests on the field layer being injective: -/

/-- two well-formed typed values of one kind with the same packed form are the same value (so records that differ
    in a field differ in their packed values, and `C12_eq_iff` speaks about the field values). From
    `unpackT_packT`: the packed form determines the value. -/
theorem C12_field_pack_injective (norm : Nat → FlowRecord.FieldPack.Str → FlowRecord.FieldPack.Str)
    (k : FlowRecord.FieldPack.Kind) (a b : FlowRecord.FieldPack.TVal) (p : FlowRecord.Wire.PV)
    (ha : FlowRecord.FieldPack.WFT norm k a) (hb : FlowRecord.FieldPack.WFT norm k b)
    (hpa : FlowRecord.FieldPack.packT k a = some p) (hpb : FlowRecord.FieldPack.packT k b = some p) : a = b := by
  have h1 := FlowRecord.FieldPack.unpackT_packT norm k a p ha hpa
  have h2 := FlowRecord.FieldPack.unpackT_packT norm k b p hb hpb
  rw [h1] at h2
  exact Option.some.inj h2

/-- Recorded finding (ip family): the well-formedness hypothesis is needed - 1.2.3.4 and ::102:304 have the same
    packed form, so records holding them compare equal. An IPv4-mapped IPv6 address and the IPv4 address it embeds
    do NOT: they pack to different integers. -/
theorem C12_ip_family_counterexample :
    FlowRecord.FieldPack.packT .ip (.ip 4 16909060) = FlowRecord.FieldPack.packT .ip (.ip 6 16909060) ∧
    FlowRecord.FieldPack.packT .ip (.ip 6 281470849515521) ≠ FlowRecord.FieldPack.packT .ip (.ip 4 167772161) := by
  constructor
  · rfl
  · simp [FlowRecord.FieldPack.packT]

/-- IN-PLACE EDITS: a typed list that received plain elements after the record was built (`rec.paths.append("x")`)
    packs - and therefore compares and hashes, `C12_eq_iff` - exactly like the list that held the converted elements
    from the start. The hypothesis that `typedlist._pack` converts before packing is the regenerated source fact. -/
theorem C12_inplace_elements_same_pack {R : Type} (conv : R → Option FlowRecord.FieldPack.TVal)
    (k : FlowRecord.FieldPack.Kind) (xs : List (FlowRecord.FieldPack.TVal ⊕ R)) (ts : List FlowRecord.FieldPack.TVal)
    (h : FlowRecord.FieldPack.heldValues conv xs = some ts) :
    (FlowRecord.FieldPack.packHeld conv k xs).map FlowRecord.Wire.PV.seq
      = FlowRecord.FieldPack.packT (.list k) (.list ts) := by
  have hgen : FlowRecord.Gen.typedlistPackConvertsRaw = true := by decide
  rw [FlowRecord.FieldPack.packHeld_eq conv k hgen xs ts h]
  simp [FlowRecord.FieldPack.packT]

-- non-vacuity: a path list holding one typed element and one plain text appended in place
example : FlowRecord.FieldPack.heldValues (R := List Nat) (fun t => some (.path 0 t))
    [.inl (.path 0 [47, 97]), .inr [47, 98]] = some [.path 0 [47, 97], .path 0 [47, 98]] := by rfl
