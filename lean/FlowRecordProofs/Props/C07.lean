import FlowRecord.Model.Selector.Interp
import FlowRecord.Model.Selector.Ref
import FlowRecordProofs.Lemmas.SelectorAgree
import FlowRecordProofs.Lemmas.SelectorCompiled
import FlowRecord.Gen.Pipeline
/-!
C07 — both selector engines compute the Python meaning of the expression.

`interp` / `interpMatch` (Model/Selector/Interp.lean) is `RecordContextMatcher._eval` transcribed branch by branch,
with every operator looked up in the tables generated from the current source. `refEval` / `refMatch`
(Model/Selector/Ref.lean) is Python's evaluation written down directly over the documented operator set.
Both are parametric in the primitives `Prim`; every theorem holds for **every** `Prim`, every record, every fuel
(= nesting depth explored), and expressions of unbounded depth and width (structural `Supported`).
-/
open FlowRecord FlowRecord.Selector

/-- **Main theorem.** For every supported expression: whenever the Python meaning is anything but `undefined`
    (a sub-expression is not defined on this record: missing attribute, the missing-field sentinel reaching
    arithmetic/membership, a typed matcher on the left of `in` — C08's territory) or a NoneType-TypeError (which the
    BoolOp branch is written to swallow), the interpreted engine returns **exactly** the same value or raises the
    same class of exception. Proved by induction on the evaluation with a mutual treatment of list, tuple, keyword,
    BoolOp, comparison-chain and generator loops. -/
theorem C07_interp (P : Prim) (rec : PVal) (fuel : Nat) (e : Expr) (hS : Supported [] e)
    (hG : Good (refMatch P fuel rec e)) : (interpMatch P fuel rec e).2 = refMatch P fuel rec e := by
  have hf : flagsOk = true := by decide
  unfold interpMatch refMatch at *
  simp only [hf, if_true]
  exact (agree_interp P { compiled := false, record := rec } rfl fuel e
    { ns := [], trace := [], record := rec } rfl hS hG).1

/-- Corollary in the property's own words: on every record on which Python evaluation of the expression yields a
    value, the interpreted engine yields that value (hence the same truth value). -/
theorem C07_interp_value (P : Prim) (rec : PVal) (fuel : Nat) (e : Expr) (hS : Supported [] e) (v : PVal)
    (h : refMatch P fuel rec e = .ok v) : (interpMatch P fuel rec e).2 = .ok v := by
  rw [C07_interp P rec fuel e hS (by rw [h]; exact good_ok v), h]

/-- The same inside any state (generator variables bound, trace non-empty), together with the frame conditions
    the induction needs: the namespace and the record are as before. -/
theorem C07_interp_state (P : Prim) (rec : PVal) (fuel : Nat) (e : Expr) (st : St) (hr : st.record = rec)
    (hS : Supported (keys st.ns) e) (hG : Good (refEval P { compiled := false, record := rec } fuel st.ns e)) :
    (interp P fuel e st).2 = refEval P { compiled := false, record := rec } fuel st.ns e ∧
    (interp P fuel e st).1.ns = st.ns ∧ (interp P fuel e st).1.record = st.record :=
  agree_interp P { compiled := false, record := rec } rfl fuel e st hr hS hG

/-- **Compiled engine.** `CompiledSelector.match` is Python's `eval` in the namespace {helpers, `net`, `r` ↦ wrapped
    record, `Type`} + builtins (`compiledMatch`). On the documented grammar restricted to the names both namespaces
    bind (`SupportedC`: `r`, `Type`, the helper functions, `any all str repr`, generator variables; no dunder
    attributes) it returns exactly the documented meaning whenever that is defined — the wrapped record's sentinel,
    the unrestricted calls and the unrestricted attribute access of the compiled namespace make no difference there. -/
theorem C07_compiled (P : Prim) (rec : PVal) (fuel : Nat) (e : Expr) (hS : SupportedC [] e)
    (hG : Good (refMatch P fuel rec e)) : compiledMatch P fuel rec e = refMatch P fuel rec e :=
  agreeC_ref P rec fuel [] e hS hG

/-- Both engines: on every expression of the common grammar and every record on which the Python meaning is
    defined, the interpreted and the compiled engine return the same result — the Python one. -/
theorem C07_engines_agree (P : Prim) (rec : PVal) (fuel : Nat) (e : Expr) (hS : Supported [] e) (hC : SupportedC [] e)
    (v : PVal) (h : refMatch P fuel rec e = .ok v) :
    (interpMatch P fuel rec e).2 = .ok v ∧ compiledMatch P fuel rec e = .ok v := by
  have hG : Good (refMatch P fuel rec e) := by rw [h]; exact good_ok v
  exact ⟨by rw [C07_interp P rec fuel e hS hG, h], by rw [C07_compiled P rec fuel e hC hG, h]⟩

/-- Inst: the tables generated from the current source are the documented ones and send every documented
    operator to the same primitive as the reference (a swapped entry such as `Lt ↦ operator.gt` fails here). -/
theorem C07_operator_tables :
    (∀ op ∈ docBinops, (tableArith op).toOption = docArith op) ∧
    (∀ op ∈ docCmpops, (Gen.comparatorShapes.lookup op).bind cmpImplOfTarget = docCmp op) ∧
    Gen.AST_OPERATORS.lookup "Not" = some "operator.not_" ∧
    Gen.AST_OPERATORS.map (·.1) = ["Add", "Mult", "Div", "And", "Or", "Not", "Mod", "BitAnd", "BitOr"] ∧
    Gen.comparatorShapes.map (·.1) = ["Eq", "In", "NotIn", "NotEq", "Gt", "Lt", "GtE", "LtE", "Is", "IsNot"] ∧
    Gen.evalNodeKinds = ["Constant", "List", "Tuple", "Name", "Attribute", "BoolOp", "BinOp", "UnaryOp", "Compare",
      "Call", "comprehension", "GeneratorExp"] ∧
    flagsOk = true := by
  decide

/-- An expression outside the language is rejected, not evaluated to something else (1): a node class without a
    branch in `_eval` raises, whatever it contains. -/
theorem C07_rejects_other_nodes (P : Prim) (fuel : Nat) (k : String) (st : St) :
    ∃ err, interp P (fuel + 1) (.other k) st = (st, .error err) := by
  by_cases h : k ∈ Gen.evalNodeKinds
  · exact ⟨.unmodelled, by simp [interp, evalStep, Expr.kind, h, M.throw]⟩
  · exact ⟨.typeErr, by simp [interp, evalStep, Expr.kind, h, M.throw]⟩

/-- (2) a unary operator that is not in the generated table (`-x`, `+x`, `~x`) raises KeyError before its operand
    is evaluated. -/
theorem C07_rejects_unary (P : Prim) (fuel : Nat) (op : String) (x : Expr) (st : St)
    (h : Gen.AST_OPERATORS.lookup op = none) :
    interp P (fuel + 1) (.unary op x) st = (st, .error .keyErr) := by
  have hk : "UnaryOp" ∈ Gen.evalNodeKinds := by decide
  simp [interp, evalStep, Expr.kind, hk, h, M.throw]

/-- (3) a binary operator that is not in the generated table (`-`, `//`, `**`, `<<`, `^`, …) never produces a
    value of its own: the result is an error, or the sentinel guard's `False` (C08) when an operand is a missing
    field. -/
theorem C07_rejects_binop (P : Prim) (fuel : Nat) (op : String) (l r : Expr) (st : St)
    (h : Gen.AST_OPERATORS.lookup op = none) (v : PVal)
    (hv : (interp P (fuel + 1) (.binop op l r) st).2 = .ok v) : v = .bool false := by
  have hk : Gen.evalNodeKinds.contains "BinOp" = true := by decide
  have ht : tableArith op = .error .keyErr := by simp [tableArith, h]
  simp only [interp, evalStep, Expr.kind, hk, Bool.not_true, Bool.false_eq_true, if_false, bind_eq, pure_eq, ht] at hv
  unfold M.bind at hv
  cases h1 : interp P fuel l st with
  | mk s1 r1 =>
    rw [h1] at hv
    cases r1 with
    | error e => simp at hv
    | ok lv =>
      simp only at hv
      cases h2 : interp P fuel r s1 with
      | mk s2 r2 =>
        rw [h2] at hv
        cases r2 with
        | error e => simp at hv
        | ok rv =>
          simp only at hv
          by_cases hg : binopGuard lv rv = true
          · simp [hg, M.pure] at hv
            exact hv.symm
          · simp [hg, M.throw] at hv

/-- the operators Python has and the selector language does not -/
theorem C07_undocumented_operators_absent :
    (∀ op ∈ ["USub", "UAdd", "Invert", "Sub", "FloorDiv", "Pow", "LShift", "RShift", "BitXor", "MatMult"],
      Gen.AST_OPERATORS.lookup op = none) := by
  decide

/-- Known finding (stays): a typed matcher on the left of `in` / `not in` is outside the theorem — the interpreted
    engine does not evaluate `left in right` there but `any(v in right for v in left._values())` over the
    top-level fields only, so with the matching value inside a nested record the two engines disagree.
    Witness: primitives in which the matcher's top-level values are `[5]` while Python's membership (which goes
    through the matcher's `__eq__`, nested records included) finds `7`: `Type.varint in [7]`. -/
theorem C07_tmatch_in_counterexample :
    ∃ (P : Prim) (rec : PVal) (e : Expr),
      (interpMatch P 6 rec e).2 = .ok (.bool false) ∧ compiledMatch P 6 rec e = .ok (.bool true) := by
  let P : Prim :=
    { truthy := fun v => match v with | .bool b => b | _ => true,
      rich := fun _ _ _ => .error .typeErr,
      contains := fun c x => match c, x with
        | .list [.int 7], .tmatch _ _ => .ok true      -- `[7].__contains__(matcher)`: 7 == matcher looks into nested records
        | _, _ => .ok false,
      is_ := fun _ _ => false, arith := fun _ _ _ => .error .typeErr,
      getattr := fun v a => match v with | .typeRoot => some (.tmatch [a] []) | _ => none,
      iter := fun _ => .error .typeErr, call := fun _ _ _ => .error .typeErr, dynft := fun _ => .error .attrErr,
      modattr := fun _ _ => .error .attrErr,
      tmValues := fun _ _ => [.int 5] }                 -- `_values()`: the top-level varint field only
  exact ⟨P, .recv "t" [], .compare (.attr (.name "Type") "varint") [("In", .list [.const (.int 7)])], rfl, rfl⟩

-- Non-vacuity: `Supported` is inhabited by real selectors, `Good` holds on them, and the evaluators compute.
/-- The engines are handed the expression TEXT the caller gave: `make_selector` (what the readers, `record_stream` and
    rdump call) passes a text selector to `CompiledSelector(selector)` / `Selector(selector)` as it is - nothing
    normalises, strips or rewrites it on the way - and an interpreted selector is recompiled from its own
    `expression_str`. (The regenerated if-chain of `make_selector`.) -/
theorem C07_make_selector_hands_over_the_text :
    Gen.makeSelectorChain = [("not selector", "ret = None"),
      ("isinstance(selector, string_types)", "ret = CompiledSelector(selector) if force_compiled else Selector(selector)"),
      ("isinstance(selector, Selector)", "if force_compiled:\n    ret = CompiledSelector(selector.expression_str)")] ∧
    Gen.makeSelectorDefaultIsArgument = true := by
  constructor <;> decide +kernel

namespace C07_nonvacuous
def P0 : Prim :=
  { truthy := fun v => match v with | .bool b => b | .none => false | .int i => i != 0 | _ => true,
    rich := fun o a b => match o, a, b with
      | .lt, .int x, .int y => .ok (.bool (x < y))
      | .eq, .int x, .int y => .ok (.bool (x == y))
      | _, _, _ => .error .typeErr,
    contains := fun _ _ => .ok false, is_ := fun _ _ => false,
    arith := fun o a b => match o, a, b with | .add, .int x, .int y => .ok (.int (x + y)) | _, _, _ => .error .typeErr,
    getattr := fun v a => match v with | .recv _ fs => (fs.find? (fun f => f.1 == a)).map (·.2.2) | _ => none,
    iter := fun v => match v with | .list xs => .ok xs | _ => .error .typeErr,
    call := fun _ _ _ => .error .typeErr, dynft := fun _ => .error .attrErr, modattr := fun _ _ => .error .attrErr,
    tmValues := fun _ _ => [] }
def rec0 : PVal := .recv "t" [("n", "varint", .int 100), ("l", "varint[]", .list [.int 1, .int 2])]
def rn : Expr := .attr (.name "r") "n"
/-- `1 < r.n < 3` (finding #3): both evaluators say False for n = 100 -/
def chain : Expr := .compare (.const (.int 1)) [("Lt", rn), ("Lt", .const (.int 3))]
example : Supported [] chain := by
  refine .compare _ _ _ (.const _ _) ?_ ?_ <;> intro p hp <;>
    simp only [List.mem_cons, List.mem_nil_iff, or_false] at hp <;> rcases hp with h | h <;> subst h
  · decide
  · decide
  · exact .attr _ _ _ (.name _ _)
  · exact .const _ _
example : refMatch P0 6 rec0 chain = .ok (.bool false) := by rfl
example : (interpMatch P0 6 rec0 chain).2 = .ok (.bool false) := by rfl
/-- `any(x == 1 for x in r.l) and any(x == 2 for x in r.l)` (finding #4): the variable is reusable -/
def anyx (k : Int) : Expr :=
  .call (.name "any") [.genexp (.compare (.name "x") [("Eq", .const (.int k))]) [(some "x", .attr (.name "r") "l", [])]] []
example : (interpMatch P0 8 rec0 (.boolop "And" [anyx 1, anyx 2])).2 = .ok (.bool true) := by rfl
example : Supported [] (anyx 1) := by
  refine .callGen [] (.name "any") "any" .any _ "x" _ [] rfl (by decide) rfl (by simp) (by decide)
    (.attr _ _ _ (.name _ _)) (by simp) ?_
  refine .compare _ _ _ (.name _ _) ?_ ?_ <;> intro p hp <;> simp only [List.mem_singleton] at hp <;> subst hp
  · decide
  · exact .const _ _
example : SupportedC [] chain := by
  refine .compare _ _ _ (.const _ _) ?_
  intro p hp
  simp only [List.mem_cons, List.mem_nil_iff, or_false] at hp
  rcases hp with h | h <;> subst h
  · exact .attr _ _ _ (by decide) (.name _ _ (Or.inr (by decide)))
  · exact .const _ _
example : compiledMatch P0 6 rec0 chain = .ok (.bool false) := by rfl
example : compiledMatch P0 8 rec0 (.boolop "And" [anyx 1, anyx 2]) = .ok (.bool true) := by rfl
/-- `(r.a or 5) == 5` (finding #19): the BoolOp yields the operand -/
example : (interpMatch P0 6 (.recv "t" [("a", "varint", .int 0)])
    (.compare (.boolop "Or" [.attr (.name "r") "a", .const (.int 5)]) [("Eq", .const (.int 5))])).2
    = .ok (.bool true) := by rfl
end C07_nonvacuous
