import FlowRecordProofs.Lemmas.Readers
/-!
C10 — reading with a selector equals filtering afterwards; matching is pure.
Property theorems only (helper lemmas: `Lemmas/Readers.lean`). The readers are the loops of `Model/Readers.lean`,
configured by the structural facts extracted from the current source (`Gen.Pipeline`): which `yield`s are guarded by
`if not self.selector or self.selector.match(obj)`, which matcher attributes `matches` re-assigns, which ones
`eval/_eval` read and write. What an expression *means* is a parameter (`Matcher`, C07).
-/
open FlowRecord FlowRecord.Readers

/-- Every reader shape (stream, JSON, Avro, CSV, SQLite), every source, every matcher — raising ones included:
    iterating with the selector gives exactly what iterating without it and testing each record afterwards gives:
    same records, same order, same terminal exception. Holds for every configuration in which all yields are
    guarded. -/
theorem C10_filter {I D P X R E : Type} [DecidableEq I] (cfg : Cfg) (h : cfg.AllGuarded)
    (dec : Decoders D P X R E) (m : Matcher R E) (src : Src I D P X R E) :
    read cfg dec (some m) src = filterRun m (read cfg dec none src) := by
  obtain ⟨hs, hj1, hj2, ha, hc, hq⟩ := h
  cases src with
  | stream fs => exact streamLoop_filter cfg.stream hs _ _ _ m fs []
  | json ls => exact jsonLoop_filter cfg.json hj1 hj2 _ m ls []
  | avro xs => simp only [Readers.read, ha]; exact mapLoop_filter _ m xs
  | csv xs => simp only [Readers.read, hc]; exact mapLoop_filter _ m xs
  | sqlite ts => simp only [Readers.read, sqliteLoop, hq]; exact mapLoop_filter _ m _

/-- Inst: in the current source every `yield` of every reader is guarded by the selector test on the yielded
    object, the stream reader registers descriptors in a branch that does not consult the selector, the JSON reader
    guards both its record and its plain-JSON fallback branch, SQLite's `read_table` does not look at the selector. -/
theorem C10_inst_all_guarded : genCfg.AllGuarded := by decide

/-- The property for the readers as they are in the source tree now. -/
theorem C10_filter_current {I D P X R E : Type} [DecidableEq I]
    (dec : Decoders D P X R E) (m : Matcher R E) (src : Src I D P X R E) :
    read genCfg dec (some m) src = filterRun m (read genCfg dec none src) :=
  C10_filter genCfg C10_inst_all_guarded dec m src

/-- Same values, same order: what a selector lets through is a sublist of what the reader yields without it, and
    for a matcher that never raises it is literally `List.filter`, with the reader's own error status unchanged. -/
theorem C10_order_preserved {I D P X R E : Type} [DecidableEq I]
    (dec : Decoders D P X R E) (m : Matcher R E) (src : Src I D P X R E) :
    (read genCfg dec (some m) src).out.Sublist (read genCfg dec none src).out ∧
    (∀ p : R → Bool, (∀ r ∈ (read genCfg dec none src).out, m r = .ok (p r)) →
      read genCfg dec (some m) src =
        ⟨(read genCfg dec none src).out.filter p, (read genCfg dec none src).err⟩) := by
  rw [C10_filter_current]
  exact ⟨filterAfter_sublist m _ _, fun p hp => filterAfter_total m p _ _ hp⟩

/-- Filtering records out never hides or causes a reader error: descriptor frames are registered, rows decoded and
    broken input reported exactly as without selector (here: a selector that rejects everything). -/
theorem C10_rejecting_selector_keeps_errors {I D P X R E : Type} [DecidableEq I]
    (dec : Decoders D P X R E) (src : Src I D P X R E) :
    read genCfg dec (some fun _ => .ok false) src = ⟨[], (read genCfg dec none src).err⟩ := by
  rw [(C10_order_preserved dec (fun _ => .ok false) src).2 (fun _ => false) (fun _ _ => rfl)]
  simp

/-- The guard flags carry the content: a reader with one unguarded yield (here: the JSON fallback branch, the way a
    per-adapter omission would look) does *not* have the property. -/
theorem C10_unguarded_counterexample :
    ∃ (cfg : JsonCfg) (m : Matcher Nat Unit) (ls : List (JsonLine Nat Nat Unit)),
      cfg.guardRecord = true ∧ jsonLoop cfg () (some m) [] ls ≠ filterRun m (jsonLoop cfg () none [] ls) :=
  ⟨⟨true, false⟩, fun _ => .ok false, [.plain (.ok 7)], rfl, by decide⟩

/-- SQLite: the result does not depend on how `fetchmany(batch_size)` cuts the rows into batches. -/
theorem C10_sqlite_batch_independent {X R E : Type} (mk : X → Except E R) (sel : Option (Matcher R E))
    (t1 t2 : List (List (List X))) (h : t1.map (·.flatMap id) = t2.map (·.flatMap id)) (g : Bool) :
    sqliteLoop g mk sel t1 = sqliteLoop g mk sel t2 := by
  have e : ∀ t : List (List (List X)), (t.flatMap fun b => b.flatMap id) = (t.map (·.flatMap id)).flatMap id := by
    intro t; simp [List.flatMap_def]
  simp only [sqliteLoop, e, h]

/-- `make_selector`: an absent or empty selector means "no filter"; the three ways of giving the same non-empty
    expression (text, `Selector`, `CompiledSelector`) are normalised to objects holding the same expression text;
    objects pass through unchanged unless compilation is forced; normalising twice changes nothing. -/
theorem C10_make_selector (s : String) (hs : s.isEmpty = false) (force : Bool) :
    makeSelector .absent force = none ∧ makeSelector (.text "") force = none ∧
    makeSelector (.text s) false = some (.interp s) ∧
    makeSelector (.text s) true = some (.compiled (some s)) ∧
    makeSelector (.interp s) force = makeSelector (.text s) force ∧
    makeSelector (.compiled s) force = some (.compiled (some s)) ∧
    (∀ a : SelArg, a.obj.isSome → makeSelector a false = a.obj) := by
  refine ⟨rfl, rfl, ?_, ?_, ?_, ?_, ?_⟩
  · simp [makeSelector, mkInterp, hs]
  · simp [makeSelector, mkCompiled, hs]
  · cases force <;> simp [makeSelector, mkInterp, mkCompiled, hs]
  · simp [makeSelector, mkCompiled, hs]
  · intro a ha
    cases a with
    | absent => simp [SelArg.obj] at ha
    | text t => simp [SelArg.obj] at ha
    | interp t => simp [makeSelector, SelArg.obj, mkInterp]
    | compiled t => simp [makeSelector, SelArg.obj]

/-- Inst: the shape of `make_selector`, `Selector`, `CompiledSelector` that `makeSelector` / `runThreaded` /
    `runCompiled` transcribe: falsy → None, text → engine by `force_compiled`, a `Selector` is recompiled from its
    `expression_str` only when forced, anything else passes through; `Selector("")` means `"True"`,
    `CompiledSelector("")` matches everything; neither class defines `__bool__`/`__len__`; `Selector.match` reuses one
    matcher whose `matches` is called per record; every reader normalises its `selector=` argument with it and the
    stream adapter delegates to `RecordStreamReader`. -/
theorem C10_inst_selector_shape :
    Gen.makeSelectorChain =
      [("not selector", "ret = None"),
       ("isinstance(selector, string_types)", "ret = CompiledSelector(selector) if force_compiled else Selector(selector)"),
       ("isinstance(selector, Selector)", "if force_compiled:\n    ret = CompiledSelector(selector.expression_str)")] ∧
    Gen.makeSelectorDefaultIsArgument = true ∧ Gen.selectorEmptyDefault = "True" ∧
    Gen.selectorKeepsExpressionStr = true ∧ Gen.compiledEmptyIsNone = true ∧ Gen.compiledNoCodeMatchesAll = true ∧
    Gen.selectorObjectsAlwaysTruthy = true ∧ Gen.compiledObjectsAlwaysTruthy = true ∧
    Gen.selectorMatchReusesMatcher = true ∧ Gen.selectorMatchCallsMatches = true ∧
    Gen.compiledMatchCopiesNamespace = true ∧ Gen.matchesRebuildsNamespace = true ∧
    (∀ row ∈ Gen.readerNormalisesSelector, row.2 = true) ∧
    Gen.readerNormalisesSelector.map (·.1) = ["stream", "jsonfile", "avro", "csvfile", "sqlite"] ∧
    Gen.streamAdapterDelegates = true ∧ Gen.streamLoopCatches = ["EOFError"] ∧
    Gen.sqliteIterNestsTables = true ∧ Gen.sqliteReadTableBatches = true := by decide

/-- With no selector (None, "", or an empty `CompiledSelector`) every reader is the identity filter. -/
theorem C10_empty_selector {I D P X R E : Type} [DecidableEq I] (dec : Decoders D P X R E)
    (evalI evalC : String → Matcher R E) (src : Src I D P X R E) (a : SelArg)
    (ha : a = .absent ∨ a = .text "" ∨ a = .compiled "") :
    (read genCfg dec (readerSelector evalI evalC a) src).out = (read genCfg dec none src).out := by
  rcases ha with h | h | h <;> subst h
  · rfl
  · rfl
  · have : readerSelector evalI evalC (.compiled "") = some (fun _ => .ok true) := rfl
    rw [this, (C10_order_preserved dec _ src).2 (fun _ => true) (fun _ _ => rfl)]
    simp

/-- The attributes of the matcher object that never change after `__init__` as far as evaluation is concerned. -/
def C10_matcherConsts : List String :=
  Gen.matcherInitFields.filter fun f =>
    !Gen.matcherEvalStores.contains f && !Gen.matcherEvalMutates.contains f && !Gen.matcherResetFields.contains f

/-- Inst: every attribute that `eval/_eval` read is either re-assigned by `matches` before the expression is
    evaluated, or never written after `__init__`. (A cache attribute read by `_eval` but not reset would break this.) -/
theorem C10_inst_reads_covered :
    ∀ f ∈ Gen.matcherEvalReads, f ∈ Gen.matcherResetFields ∨ f ∈ C10_matcherConsts := by decide

/-- History independence of the interpreted engine. `Selector.match` reuses one matcher object; still, for every
    evaluation function whose result depends only on the attributes `eval/_eval` read (extracted) and that leaves
    the constant attributes alone — it may leave *anything* behind in the others: bound generator variables,
    half-built backtraces after an exception — matching a sequence of records with one reused `Selector` gives,
    record by record, what a fresh `Selector` gives. -/
theorem C10_history_independent {R S T : Type} (fresh : R → String → S) (eval : R → MState S → T × MState S)
    (hreads : ∀ r st st', (∀ f ∈ Gen.matcherEvalReads, st f = st' f) → (eval r st).1 = (eval r st').1)
    (hconst : ∀ r st, ∀ f ∈ C10_matcherConsts, (eval r st).2 f = st f)
    (init : MState S) (rs : List R) :
    runThreaded Gen.matcherResetFields fresh eval init rs
      = rs.map (matchFresh Gen.matcherResetFields fresh eval init) :=
  runThreaded_eq_map Gen.matcherEvalReads C10_matcherConsts Gen.matcherResetFields C10_inst_reads_covered
    fresh eval hreads hconst init rs init (fun _ _ _ => rfl)

/-- ... and therefore independent of order and of what was matched before: the result for a record is the same at
    the end of any history as at the start. -/
theorem C10_order_independent {R S T : Type} (fresh : R → String → S) (eval : R → MState S → T × MState S)
    (hreads : ∀ r st st', (∀ f ∈ Gen.matcherEvalReads, st f = st' f) → (eval r st).1 = (eval r st').1)
    (hconst : ∀ r st, ∀ f ∈ C10_matcherConsts, (eval r st).2 f = st f)
    (init : MState S) (before : List R) (r : R) :
    (runThreaded Gen.matcherResetFields fresh eval init (before ++ [r])).getLast?
      = some (matchFresh Gen.matcherResetFields fresh eval init r) := by
  rw [C10_history_independent fresh eval hreads hconst]
  simp

/-- The reset is what carries the theorem: if `matches` did not re-assign `data` (reset list empty), an evaluation
    that reads the namespace it left behind makes the second result depend on the first record. -/
theorem C10_reset_needed :
    ∃ (fresh : Nat → String → Nat) (eval : Nat → MState Nat → Nat × MState Nat) (init : MState Nat) (rs : List Nat),
      (∀ r st st', (∀ f ∈ Gen.matcherEvalReads, st f = st' f) → (eval r st).1 = (eval r st').1) ∧
      runThreaded [] fresh eval init rs ≠ rs.map (matchFresh [] fresh eval init) :=
  ⟨fun r _ => r, fun r st => (st "data", fun f => if f = "data" then st f + r + 1 else st f), fun _ => 0, [1, 2],
   fun _ _ _ h => h "data" (by decide), by decide⟩

/-- The compiled engine: `match` evaluates in a copy of the selector's namespace (extracted), so whatever the
    evaluation does to its namespace, results are those of a fresh object. -/
theorem C10_compiled_history_independent {R N T : Type} (eval : R → N → T × N) (ns : N) (rs : List R) :
    runCompiled Gen.compiledMatchCopiesNamespace eval ns rs = rs.map (fun r => (eval r ns).1) :=
  runCompiled_eq_map eval ns rs

/-- Inst: no assignment, deletion or loop target in `matches`/`eval`/`_eval` is anything but a local name, an
    attribute of the matcher object or an item of one; no `setattr`/`delattr`. -/
theorem C10_inst_no_foreign_writes : ∀ t ∈ genTargets, t.isForeign = false := by decide

/-- Purity at the level of the matcher's own code: any sequence of writes to targets that occur in the matcher
    code leaves everything outside the matcher object and the local frame — the record in particular — as it was. -/
theorem C10_pure {S W : Type} (wr : String → S → W → W) (m : Machine S W) (ws : List (Target × S))
    (h : ∀ w ∈ ws, w.1 ∈ genTargets) : (execWrites wr m ws).world = m.world :=
  execWrites_world wr ws (fun w hw => C10_inst_no_foreign_writes w.1 (h w hw)) m

-- Non-vacuity --------------------------------------------------------------------------------------------------
namespace C10_nonvacuous
/-- A stream in which a rejected record is followed by a descriptor frame, a repeated header and further records;
    records decoded as (descriptor, payload). -/
def frames : List (Frame Nat String Nat String) :=
  [.magic, .desc 1 "a", .record 1 [] 10, .record 1 [] 11, .desc 2 "b", .magic, .record 2 [] 12, .record 1 [] 13, .record 3 [] 14,
   .record 1 [] 15, .record 1 [2] 16, .record 1 [4] 17]
def dec : Decoders String Nat Nat (String × Nat) String :=
  ⟨fun d p => (d, p), fun x => .ok ("avro", x), fun x => .ok ("csv", x),
   fun x => if x = 99 then .error "row" else .ok ("sql", x), "RecordDescriptorNotFound", "header"⟩
def odd : Matcher (String × Nat) String := fun r => if r.2 = 13 then .error "TypeError" else .ok (r.2 % 2 == 1)
example : read genCfg dec none (Src.stream (X := Nat) frames)
    = ⟨[("a", 10), ("a", 11), ("b", 12), ("a", 13)], some "RecordDescriptorNotFound"⟩ := by decide
example : read genCfg dec none (Src.stream (X := Nat) (frames.eraseIdx 8))
    = ⟨[("a", 10), ("a", 11), ("b", 12), ("a", 13), ("a", 15), ("a", 16)], some "RecordDescriptorNotFound"⟩ := by
  decide
example : read genCfg dec (some fun r => .ok (r.2 % 2 == 0)) (Src.stream (X := Nat) frames)
    = ⟨[("a", 10), ("b", 12)], some "RecordDescriptorNotFound"⟩ := by decide
example : read genCfg dec (some odd) (Src.stream (X := Nat) frames) = ⟨[("a", 11)], some "TypeError"⟩ := by decide
example : read genCfg dec (some odd) (Src.json (D := String) (P := Nat) (X := Nat)
      [.descriptor 1, .record 1 ("j", 1), .plain (.ok ("p", 2)), .record 1 ("j", 5), .record 2 ("j", 7)])
    = ⟨[("j", 1), ("j", 5)], some "RecordDescriptorNotFound"⟩ := by decide
example : read genCfg dec (some odd) (Src.sqlite (I := Nat) (D := String) (P := Nat) [[[1, 2], [3]], [[5, 99, 7]]])
    = ⟨[("sql", 1), ("sql", 3), ("sql", 5)], some "row"⟩ := by decide
/-- an evaluation that meets the hypotheses of `C10_history_independent` and leaves garbage behind -/
def leaky (r : Nat) (st : MState Nat) : Bool × MState Nat :=
  (st "data" % 2 == 0, fun f => if f = "data" then st f + r + 100 else st f)
example : (∀ r st st', (∀ f ∈ Gen.matcherEvalReads, st f = st' f) → (leaky r st).1 = (leaky r st').1) ∧
    (∀ r st, ∀ f ∈ C10_matcherConsts, (leaky r st).2 f = st f) := by
  refine ⟨fun r st st' h => ?_, fun r st f hf => ?_⟩
  · simp [leaky, h "data" (by decide)]
  · have : f ≠ "data" := by
      intro e; subst e; revert hf; decide
    simp [leaky, this]
example : runThreaded Gen.matcherResetFields (fun r _ => r) leaky (fun _ => 0) [1, 2, 4, 7]
    = [false, true, true, false] := by decide
end C10_nonvacuous
