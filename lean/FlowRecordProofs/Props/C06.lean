import FlowRecordProofs.Lemmas.Descriptor
import FlowRecordProofs.Lemmas.Assoc
import FlowRecordProofs.Lemmas.Render
/-!
C06 — descriptor names are validated; untrusted definitions cannot inject code.
Property theorems only. Strings are lists of code points (`Str`), so "for all strings" includes control
characters, non-ASCII look-alikes and lone surrogates. The regular expressions, the whitelist, the reserved
fields and the keyword list are the ones extracted from the current source (`Gen`).
-/
open FlowRecord FlowRecord.Descriptor FlowRecord.Rx FlowRecord.Render

/-- `RE_VALID_FIELD_NAME.match(s)` for ALL strings: an optional single underscore, then an ASCII identifier
    that starts with a letter — optionally followed by ONE final newline (Python's `$`, made explicit). -/
theorem C06_field_regex (s : Str) :
    pyMatch Gen.RE_VALID_FIELD_NAME s = true ↔
      ∃ b : Str, (s = b ∨ s = b ++ [10]) ∧ (isIdentL b = true ∨ ∃ l, b = 95 :: l ∧ isIdentL l = true) := by
  unfold Gen.RE_VALID_FIELD_NAME
  rw [field_shape_iff]
  have e2 : clsMem [(97, 122), (65, 90), (48, 57), (95, 95)] = isIdentChar := funext clsMem_identChar
  simp only [clsMem_alpha, e2, clsMem_single]
  constructor
  · rintro ⟨pre, y, t, hpre, hy, hall, hs⟩
    have hL : isIdentL (y :: t) = true := by rw [isIdentL_cons]; simp [hy, hall]
    rcases hpre with rfl | ⟨x, rfl, hx⟩
    · exact ⟨y :: t, by simpa using hs, Or.inl hL⟩
    · have : x = 95 := by simpa using hx
      subst this
      exact ⟨95 :: y :: t, by simpa using hs, Or.inr ⟨y :: t, rfl, hL⟩⟩
  · rintro ⟨b, hs, hb | ⟨l, rfl, hl⟩⟩
    · cases b with
      | nil => simp [isIdentL, isIdent] at hb
      | cons y t =>
        rw [isIdentL_cons] at hb
        simp only [Bool.and_eq_true] at hb
        exact ⟨[], y, t, Or.inl rfl, hb.1, hb.2, by simpa using hs⟩
    · cases l with
      | nil => simp [isIdentL, isIdent] at hl
      | cons y t =>
        rw [isIdentL_cons] at hl
        simp only [Bool.and_eq_true] at hl
        exact ⟨[95], y, t, Or.inr ⟨95, rfl, by simp⟩, hl.1, hl.2, by simpa using hs⟩

/-- `is_valid_field_name(s)` (the function, with its reserved-name and underscore branches) for ALL strings:
    accepted ⇔ `s` is an ASCII identifier starting with a letter, or such an identifier plus one final newline. -/
theorem C06_field_grammar (s : Str) :
    isValidFieldName s true = true ↔ ∃ b : Str, (s = b ∨ s = b ++ [10]) ∧ isIdentL b = true := by
  have hres : ∀ r ∈ reservedNames, startsWithUnderscore r = true := by decide
  have head_eq : ∀ b : Str, isIdentL b = true → (s = b ∨ s = b ++ [10]) →
      startsWithUnderscore s = startsWithUnderscore b := by
    intro b hb hs
    cases b with
    | nil => simp [isIdentL, isIdent] at hb
    | cons y t => rcases hs with rfl | rfl <;> rfl
  have notUS : ∀ b : Str, isIdentL b = true → startsWithUnderscore b = false := by
    intro b hb; simp only [isIdentL, Bool.and_eq_true, Bool.not_eq_true'] at hb; exact hb.2
  unfold isValidFieldName
  by_cases hr : reservedNames.contains s = true
  · simp only [hr, if_true, Bool.not_true, Bool.false_eq_true, false_iff]
    rintro ⟨b, hs, hb⟩
    have := hres s (by simpa using hr)
    rw [head_eq b hb hs, notUS b hb] at this
    cases this
  · simp only [hr, Bool.false_eq_true, if_false]
    by_cases hu : startsWithUnderscore s = true
    · simp only [hu, if_true, Bool.false_eq_true, false_iff]
      rintro ⟨b, hs, hb⟩
      rw [head_eq b hb hs, notUS b hb] at hu
      cases hu
    · simp only [hu, Bool.false_eq_true, if_false]
      rw [C06_field_regex]
      constructor
      · rintro ⟨b, hs, hb | ⟨l, rfl, hl⟩⟩
        · exact ⟨b, hs, hb⟩
        · exfalso; apply hu; rcases hs with rfl | rfl <;> rfl
      · rintro ⟨b, hs, hb⟩; exact ⟨b, hs, Or.inl hb⟩

/-- With `check_reserved=False` (as `RecordField` calls it) the reserved names are admitted in addition. -/
theorem C06_field_grammar_unreserved (s : Str) :
    isValidFieldName s false = true ↔
      s ∈ reservedNames ∨ ∃ b : Str, (s = b ∨ s = b ++ [10]) ∧ isIdentL b = true := by
  by_cases hr : reservedNames.contains s = true
  · have : s ∈ reservedNames := by simpa using hr
    simp [isValidFieldName, this]
  · have hn : ¬ s ∈ reservedNames := by simpa using hr
    rw [← C06_field_grammar]
    simp [isValidFieldName, hn]

/-- `RE_VALID_RECORD_TYPE_NAME.match(s)` for ALL strings: a slash-separated sequence of ASCII identifiers
    each starting with a letter — optionally followed by ONE final newline. -/
theorem C06_type_grammar (s : Str) :
    isValidTypeName s = true ↔ ∃ b : Str, (s = b ∨ s = b ++ [10]) ∧ isSlashIdents b = true := by
  unfold isValidTypeName Gen.RE_VALID_RECORD_TYPE_NAME
  have hdisj : ∀ x, clsMem [(97, 122), (65, 90), (48, 57), (95, 95)] x = true → clsMem [(47, 47)] x = false := by
    intro x hx
    rw [clsMem_identChar] at hx
    rw [clsMem_single]
    simpa using isIdentChar_ne_slash hx
  have := type_shape_iff [(97, 122), (65, 90)] [(97, 122), (65, 90), (48, 57), (95, 95)] [(47, 47)] hdisj s
  unfold grp at this
  rw [this]
  have e1 : clsMem [(97, 122), (65, 90)] = isAlpha := funext clsMem_alpha
  have e2 : clsMem [(97, 122), (65, 90), (48, 57), (95, 95)] = isIdentChar := funext clsMem_identChar
  have e3 : clsMem [(47, 47)] = (· == 47) := funext (clsMem_single 47)
  rw [e1, e2, e3]
  constructor
  · rintro ⟨y, t, hy, hd, hs⟩
    exact ⟨y :: t, by simpa using hs, (isSlashIdents_iff _).mpr ⟨y, t, rfl, hy, hd⟩⟩
  · rintro ⟨b, hs, hb⟩
    obtain ⟨y, t, rfl, hy, hd⟩ := (isSlashIdents_iff b).mp hb
    exact ⟨y, t, hy, hd, by simpa using hs⟩

/-- The `$` artefact, explicit: a name with one trailing newline passes both validators although it is not
    an identifier (the generated class source is then refused by CPython; enumerated by the harness). -/
theorem C06_newline_artefact :
    isValidFieldName [97, 10] true = true ∧ isIdent [97, 10] = false ∧
    isValidTypeName [116, 47, 120, 10] = true ∧ isSlashIdents [116, 47, 120, 10] = false ∧
    isValidFieldName [97, 10, 10] true = false ∧ isValidFieldName [10, 97] true = false ∧
    isValidFieldName [97, 13] true = false := by decide

/-- Full-strength claim "what the validators accept is an identifier" — false because of `$`. -/
def C06_validated_is_identifier_statement : Prop :=
  ∀ s : Str, (isValidFieldName s true = true → isIdentL s = true) ∧ (isValidTypeName s = true → isSlashIdents s = true)

theorem C06_validated_is_identifier_counterexample : ¬ C06_validated_is_identifier_statement := by
  intro h
  have := (h [97, 10]).1 (by decide)
  revert this; decide

/-- … and it holds for every string that does not end in a newline. -/
theorem C06_validated_is_identifier_partial (s : Str) (hnl : s.getLast? ≠ some 10) :
    (isValidFieldName s true = true → isIdentL s = true) ∧ (isValidTypeName s = true → isSlashIdents s = true) := by
  have strip : ∀ (b : Str), (s = b ∨ s = b ++ [10]) → s = b := by
    intro b hs
    rcases hs with h | h
    · exact h
    · exfalso; apply hnl; rw [h]; simp
  constructor
  · intro h
    obtain ⟨b, hs, hb⟩ := (C06_field_grammar s).mp h
    rw [strip b hs]; exact hb
  · intro h
    obtain ⟨b, hs, hb⟩ := (C06_type_grammar s).mp h
    rw [strip b hs]; exact hb

/-- Character set: every name either validator accepts consists of `[A-Za-z0-9_/]` plus at most one final
    newline. -/
theorem C06_charset (s : Str) (h : isValidFieldName s true = true ∨ isValidTypeName s = true) :
    ∃ body : Str, (s = body ∨ s = body ++ [10]) ∧ body.all isNameChar = true := by
  have identL_chars : ∀ b : Str, isIdentL b = true → b.all isNameChar = true := by
    intro b hb
    cases b with
    | nil => rfl
    | cons y t =>
      rw [isIdentL_cons] at hb
      simp only [Bool.and_eq_true, List.all_eq_true] at hb
      simp only [List.all_cons, Bool.and_eq_true, List.all_eq_true]
      exact ⟨by simp [isNameChar, isIdentChar, hb.1], fun x hx => by simp [isNameChar, hb.2 x hx]⟩
  rcases h with h | h
  · obtain ⟨b, hs, hb⟩ := (C06_field_grammar s).mp h
    exact ⟨b, hs, identL_chars b hb⟩
  · obtain ⟨b, hs, hb⟩ := (C06_type_grammar s).mp h
    refine ⟨b, hs, ?_⟩
    -- every character of a slash-separated identifier list is a name character
    obtain ⟨y, t, rfl, hy, hd⟩ := (isSlashIdents_iff b).mp hb
    have key : ∀ t : Str, segDfa isAlpha isIdentChar (· == 47) t = true → t.all isNameChar = true := by
      intro t
      fun_induction segDfa isAlpha isIdentChar (· == 47) t with
      | case1 => intro _; rfl
      | case2 x => intro h; simp only [Bool.and_eq_true] at h; simp [isNameChar, h.2]
      | case3 x y rest hx ih =>
        intro h
        simp only [Bool.and_eq_true] at h
        have hx' : x = 47 := by simpa using hx
        simp [isNameChar, hx', isIdentChar, h.1, ih h.2]
      | case4 x y rest hx ih =>
        intro h
        simp only [Bool.and_eq_true] at h
        have := ih h.2
        simp only [List.all_cons, Bool.and_eq_true] at this ⊢
        exact ⟨by simp [isNameChar, h.1], this⟩
    simp only [List.all_cons, Bool.and_eq_true]
    exact ⟨by simp [isNameChar, isIdentChar, hy], key t hd⟩

/-- Hence no delimiter of Python source can come out of a validated name: no quote, bracket, brace, paren,
    colon, dot, comma, space, tab, CR, semicolon, `#`, `=`, `@` or backslash. -/
theorem C06_no_delimiters (s : Str) (h : isValidFieldName s true = true ∨ isValidTypeName s = true) :
    ∀ c ∈ s, c ∉ [34, 39, 40, 41, 91, 93, 123, 125, 58, 46, 44, 32, 9, 13, 59, 35, 61, 64, 92, 0] := by
  obtain ⟨body, hs, hb⟩ := C06_charset s h
  have hd : ∀ c ∈ [34, 39, 40, 41, 91, 93, 123, 125, 58, 46, 44, 32, 9, 13, 59, 35, 61, 64, 92, 0],
      isNameChar c = false ∧ c ≠ 10 := by decide
  intro c hc hmem
  have hcb : c ∈ body ∨ c = 10 := by
    rcases hs with rfl | rfl
    · exact Or.inl hc
    · simpa using hc
  rcases hcb with hcb | hcb
  · have := (List.all_eq_true.mp hb) c hcb
    rw [(hd c hmem).1] at this; cases this
  · exact (hd c hmem).2 hcb

/-- Whitelist before resolution: `fieldtype` answers only for whitelisted (list-stripped) paths, and on the
    rejecting path it has performed no import and no getattr at all. -/
theorem C06_whitelist_first (t : Str) :
    (∀ ft, (fieldtype t).2 = .ok ft → stripList t ∈ whitelist ∧ ft.base = stripList t ∧ ft.isList = isListForm t) ∧
    (stripList t ∉ whitelist → fieldtype t = ([], .error .invalidFieldType)) := by
  unfold fieldtype
  by_cases h : whitelist.contains (stripList t) = true
  · have hm : stripList t ∈ whitelist := by simpa using h
    simp only [h, if_true]
    refine ⟨?_, fun hn => absurd hm hn⟩
    intro ft hft
    simp only [Except.ok.injEq] at hft
    subst hft
    exact ⟨hm, rfl, rfl⟩
  · have hm : stripList t ∉ whitelist := by simpa using h
    simp only [h, Bool.false_eq_true, if_false]
    exact ⟨fun ft hft => (by cases hft), fun _ => trivial⟩

/-- Every module the constructor imports while resolving field types is `flow.record.fieldtypes` or
    `flow.record.fieldtypes.<namespace of a whitelist entry>` — for every definition, accepted or not. -/
theorem C06_imports_whitelisted (d : Desc) :
    ∀ p, Effect.importModule p ∈ (construct d).1 →
      p = baseModule ∨ ∃ w ∈ whitelist, p = baseModule ++ [46] ++ (rpartitionDot w).1 := by
  have hft : ∀ t p, Effect.importModule p ∈ (fieldtype t).1 →
      p = baseModule ∨ ∃ w ∈ whitelist, p = baseModule ++ [46] ++ (rpartitionDot w).1 := by
    intro t p hp
    unfold fieldtype at hp
    by_cases h : whitelist.contains (stripList t) = true
    · have hm : stripList t ∈ whitelist := by simpa using h
      simp only [h, if_true] at hp
      by_cases hns : (rpartitionDot (stripList t)).1.isEmpty = true
      · by_cases hl : isListForm t = true <;> simp [hns, hl] at hp <;> simp [hp]
      · by_cases hl : isListForm t = true <;> simp [hns, hl] at hp
        · rcases hp with hp | hp
          · exact Or.inr ⟨_, hm, hp⟩
          · exact Or.inl hp
        · exact Or.inr ⟨_, hm, hp⟩
    · simp only [h, Bool.false_eq_true, if_false] at hp
      cases hp
  have hres : ∀ fs p, Effect.importModule p ∈ (resolveFields fs).1 →
      p = baseModule ∨ ∃ w ∈ whitelist, p = baseModule ++ [46] ++ (rpartitionDot w).1 := by
    intro fs
    induction fs with
    | nil => intro p hp; simp [resolveFields] at hp
    | cons f fs ih =>
      intro p hp
      obtain ⟨t, n⟩ := f
      simp only [resolveFields] at hp
      cases hf : fieldtype t with
      | mk eff r =>
        have hft' := hft t p
        rw [hf] at hft'
        cases r with
        | error e => simp only [hf] at hp; exact hft' hp
        | ok ft =>
          simp only [hf] at hp
          cases hr : resolveFields fs with
          | mk eff' r' =>
            rw [hr] at ih
            cases r' <;> simp only [hr, List.mem_append] at hp <;>
              exact hp.elim hft' (ih p)
  intro p hp
  unfold construct at hp
  split at hp
  · simp at hp
  · split at hp
    · simp at hp
    · cases hr : resolveFields d.fields with
      | mk eff r =>
        have := hres d.fields p
        rw [hr] at this
        cases r with
        | error e => simp only [hr] at hp; exact this hp
        | ok fts =>
          simp only [hr] at hp
          split at hp
          · exact this hp
          · split at hp <;> exact this hp

/-- A definition is accepted ONLY IF its name is a slash-separated sequence of ASCII identifiers, every field
    name is an ASCII identifier not starting with an underscore, and every field type is whitelisted
    (optionally in list form). (The newline artefact is excluded by `execOk`: CPython refuses that source.) -/
theorem C06_accepted_only_if (d : Desc) (h : accepts d = true) :
    isSlashIdents d.name = true ∧
    (∀ f ∈ d.fields, isIdentL f.2 = true ∧ f.2 ∉ reservedNames ∧ stripList f.1 ∈ whitelist) := by
  have hok : ∃ sl, (construct d).2 = .ok sl := by
    unfold accepts at h
    cases hc : (construct d).2 with
    | ok sl => exact ⟨sl, rfl⟩
    | error e => simp [hc] at h
  obtain ⟨sl, hsl⟩ := hok
  obtain ⟨-, hfn, ⟨eff, fts, hr⟩, htn, hex, -⟩ := construct_ok d sl hsl
  simp only [execOk, Bool.and_eq_true, Bool.not_eq_true', List.all_eq_true] at hex
  have nonl : ∀ (s b : Str), s.contains 10 = false → (s = b ∨ s = b ++ [10]) → s = b := by
    intro s b hc hs
    rcases hs with e | e
    · exact e
    · rw [e] at hc; simp at hc
  constructor
  · obtain ⟨b, hs, hb⟩ := (C06_type_grammar d.name).mp htn
    rw [nonl _ b hex.1.1 hs]; exact hb
  · intro f hf
    have hv : isValidFieldName f.2 true = true := by
      have := List.any_eq_false.mp hfn f hf
      simpa using this
    obtain ⟨b, hs, hb⟩ := (C06_field_grammar f.2).mp hv
    have hres : f.2 ∉ reservedNames := by
      intro hm
      simp [isValidFieldName] at hv
      exact hv.1 hm
    refine ⟨by rw [nonl _ b (hex.1.2 f hf) hs]; exact hb, hres, ?_⟩
    -- the type was resolved, hence whitelisted
    have key : ∀ (fs : List (Str × Str)) eff fts, resolveFields fs = (eff, .ok fts) →
        ∀ g ∈ fs, stripList g.1 ∈ whitelist := by
      intro fs
      induction fs with
      | nil => intro _ _ _ g hg; cases hg
      | cons a fs ih =>
        intro eff fts hrf g hg
        obtain ⟨t, n⟩ := a
        simp only [resolveFields] at hrf
        cases hft : fieldtype t with
        | mk e1 r1 =>
          cases r1 with
          | error e => simp [hft] at hrf
          | ok ft =>
            simp only [hft] at hrf
            cases hrr : resolveFields fs with
            | mk e2 r2 =>
              cases r2 with
              | error e => simp [hrr] at hrf
              | ok fts' =>
                rcases List.mem_cons.mp hg with rfl | hg
                · exact ((C06_whitelist_first t).1 ft (by rw [hft])).1
                · exact ih e2 fts' hrr g hg
    exact key d.fields eff fts hr f hf

/-- An accepted definition yields a record class with exactly the declared field names (each once, in order of
    first appearance) followed by the reserved metadata fields; with pairwise distinct declared names:
    exactly `fields ++ RESERVED_FIELDS`. -/
theorem C06_fields_exact (d : Desc) (sl : List Str) (h : (construct d).2 = .ok sl) :
    sl = firstOcc (d.fields.map (·.2)) ++ reservedNames ∧
    ((d.fields.map (·.2)).Nodup → sl = d.fields.map (·.2) ++ reservedNames) := by
  obtain ⟨-, hfn, -, -, -, rfl⟩ := construct_ok d sl h
  have hnores : ∀ n ∈ d.fields.map (·.2), n ∉ reservedNames := by
    intro n hn hm
    obtain ⟨f, hf, rfl⟩ := List.mem_map.mp hn
    have := List.any_eq_false.mp hfn f hf
    simp [isValidFieldName, hm] at this
  have main : slots d = firstOcc (d.fields.map (·.2)) ++ reservedNames := keys_allFields d hnores
  exact ⟨main, fun hnd => by rw [main, firstOcc_nodup_eq _ hnd]⟩

/-- THE TEXT HANDED TO `exec` IS THE TEMPLATE FILLED WITH IDENTIFIERS. For an accepted definition the rendered class
    source is the shape-only template (a function of the number of slots and of "some field is a keyword" alone)
    instantiated with the slot names and the class name — each a non-empty string of `[A-Za-z0-9_]` —, the final tab
    replacement touching literal template text only. (That `render` is the text `exec` receives is checked on every
    run by capturing it from the real code.) -/
theorem C06_render_is_template (d : Desc) (h : accepts d = true) :
    render d = inst (envOf (slots d)) (className d.name)
      ((tmplOf (slots d).length (containsKeyword d)).map tabTok) ∧
    good (className d.name) ∧ ∀ i, good (envOf (slots d) i) := by
  obtain ⟨hname, hfields⟩ := C06_accepted_only_if d h
  have henv := envOf_good d (fun f hf => (hfields f hf).1)
  have hcls := className_good d.name hname
  exact ⟨replaceTabs_inst _ _ henv hcls _, hcls, henv⟩

/-- NO CODE CAN BE INJECTED THROUGH A DEFINITION: two accepted definitions of the same shape (same number of slots,
    same keyword path) — e.g. a hostile one and the same shape with canonical identifiers — give sources with the SAME
    skeleton: outside maximal runs of `[A-Za-z0-9_]` the two texts are identical character by character. No quote,
    bracket, colon, dot, newline, space, `#`, … can come from a definition. -/
theorem C06_render_skeleton (d d' : Desc) (h : accepts d = true) (h' : accepts d' = true)
    (hshape : (slots d).length = (slots d').length ∧ containsKeyword d = containsKeyword d') :
    skel false (render d) = skel false (render d') := by
  obtain ⟨e, hcls, henv⟩ := C06_render_is_template d h
  obtain ⟨e', hcls', henv'⟩ := C06_render_is_template d' h'
  rw [e, e', hshape.1, hshape.2]
  exact skel_inst _ _ _ _ henv henv' hcls hcls' _ false

/-- The source has the shape the model transcribes: order of the tests in `is_valid_field_name`,
    `RecordField.__init__`, `fieldtype()` (whitelist test before `import_module`/`getattr`) and
    `_generate_record_class` (all validation before `exec`), a single `exec(code, _globals)`. Re-decided on every
    run against the statements extracted from the working tree. -/
theorem C06_source_shape :
    Gen.fieldNameChecks =
      ["if check_reserved: if name in RESERVED_FIELDS: return False elif name in RESERVED_FIELDS: return True",
       "if name.startswith('_'): return False", "if not RE_VALID_FIELD_NAME.match(name): return False", "return True"] ∧
    Gen.recordFieldInit.head? =
      some "if not is_valid_field_name(name, check_reserved=False): raise RecordDescriptorError('Invalid field name: {}'.format(name))" ∧
    Gen.recordFieldInit.getLast? = some "self.type = fieldtype(typename)" ∧
    Gen.fieldtypeSteps.take 6 =
      ["base_module_path = 'flow.record.fieldtypes'",
       "if clspath.endswith('[]'): origpath = clspath clspath = clspath[:-2] islist = True else: islist = False",
       "if clspath not in WHITELIST: raise AttributeError('Invalid field type: {}'.format(clspath))",
       "namespace, _, clsname = clspath.rpartition('.')",
       "module_path = f'{base_module_path}.{namespace}' if namespace else base_module_path",
       "mod = importlib.import_module(module_path)"] ∧
    Gen.genClassOrder = ["is_valid_field_name", "RecordField", "RE_VALID_RECORD_TYPE_NAME.match", "name.replace",
       "RECORD_CLASS_TEMPLATE.format", "exec"] ∧
    Gen.genClassExecCall = "exec(code, _globals)" ∧ Gen.descriptorInitFirstTest = "not name" ∧
    Gen.genClassKeywordTest = "len(all_fields) >= 255 and (not sys.version_info >= (3, 7)) or contains_keyword" ∧
    Gen.tplReplaceFrom = "\t" ∧ Gen.execGlobals = ["Record", "RECORD_VERSION", "_utcnow", "_zip_longest"] ∧
    Gen.execGlobalFieldPrefix = "_field_" := by
  decide

/-- Whitelist entries and reserved names are themselves well-formed (sanity of the extracted tables): every
    reserved name is `_` + identifier, passes `check_reserved=False`; no whitelist entry ends in `[]`. -/
theorem C06_tables_wellformed :
    (∀ r ∈ reservedNames, isValidFieldName r false = true ∧ isValidFieldName r true = false ∧ isIdent r = true) ∧
    (∀ w ∈ whitelist, isListForm w = false ∧ (fieldtype w).2 = .ok ⟨w, false⟩ ∧
      (fieldtype (w ++ [91, 93])).2 = .ok ⟨w, true⟩) := by
  decide

-- Non-vacuity: concrete definitions on both sides of every theorem.
namespace C06_nonvacuous
def good : Desc := ⟨cps "test/a", [(cps "string", cps "name"), (cps "varint[]", cps "n_1"), (cps "net.ipaddress", cps "from")]⟩
example : (construct good).2 = .ok [cps "name", cps "n_1", cps "from", cps "_source", cps "_classification",
    cps "_generated", cps "_version"] := by decide
example : (construct good).1 = [.importModule (cps "flow.record.fieldtypes"), .getattr (cps "string"),
    .importModule (cps "flow.record.fieldtypes"), .getattr (cps "varint"), .importModule (cps "flow.record.fieldtypes"),
    .importModule (cps "flow.record.fieldtypes.net"), .getattr (cps "ipaddress")] := by decide
example : construct ⟨cps "test/a", [(cps "os.system", cps "x")]⟩ = ([], .error .invalidFieldType) := by decide
example : construct ⟨cps "test/a", [(cps "string", cps "x: int = __import__('os')")]⟩ = ([], .error .invalidFieldName) := by decide
example : (construct ⟨cps "a(object):\n  pass\nclass b", [(cps "string", cps "x")]⟩).2 = .error .invalidTypeName := by decide
example : (construct ⟨cps "test/a\n", [(cps "string", cps "x")]⟩).2 = .error .execFails := by decide
example : (construct ⟨cps "class", [(cps "string", cps "x")]⟩).2 = .error .execFails := by decide
example : (construct ⟨cps "t", [(cps "string", cps "a"), (cps "varint", cps "a")]⟩).2 =
    .ok [cps "a", cps "_source", cps "_classification", cps "_generated", cps "_version"] := by decide
example : isValidFieldName (cps "ｎame") true = false := by decide   -- fullwidth look-alike
example : isValidFieldName [97, 0xDC80] true = false := by decide     -- lone surrogate
example : skel false (render good) = skel false (render ⟨cps "x", [(cps "string", cps "a"), (cps "varint[]", cps "b"), (cps "net.ipaddress", cps "if")]⟩) := by
  apply C06_render_skeleton <;> decide
end C06_nonvacuous
