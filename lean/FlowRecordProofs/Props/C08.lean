import FlowRecord.Model.Selector.PyOps
import FlowRecordProofs.Lemmas.SelectorPyOps
import FlowRecordProofs.Lemmas.SelectorStep
import FlowRecord.Model.Selector.Concrete
/-!
C08 — comparisons on a field the record lacks are false and never raise.

Property theorems only. The sentinel's behaviour is the method table extracted from `class NoneObject`
(`Gen.noneObjectMethods`), the interpreted engine's operators are the extracted `AST_COMPARATORS`
(`Gen.comparatorShapes`); Python's dispatch is `richcmp` / `pyIn` (Model/Selector/PyOps.lean). Every theorem is
for **every** class table `T` (the special methods of all other values) and every other operand `v`.
-/
open FlowRecord FlowRecord.Selector

/-- Inst: the extracted `NoneObject` defines all six comparison hooks and `__contains__`, each `return False`
    (on the pinned tree `__le__`/`__ge__` were missing: finding #5, fixed). -/
theorem C08_sentinel_methods :
    (∀ op ∈ CmpOp.all, sentinelRaw op.dunder = some "False") ∧ sentinelRaw "__contains__" = some "False" := by
  decide

/-- Inst: the extracted `AST_COMPARATORS` gives the six orderings to `operator.*` and guards `In`/`NotIn` with the
    sentinel test. -/
theorem C08_interpreted_operators :
    ∀ op ∈ SelOp.all, (Gen.comparatorShapes.lookup op.astName).bind cmpImplOfTarget = some (docImpl op) := by
  decide

/-- Interpreted engine, the whole table: every operator, both operand positions, every other operand that leaves
    the comparison to the sentinel — the result is `False`, no error. -/
theorem C08_interpreted_table (T : ClassTable) (op : SelOp) (pos : Pos) (v : PVal) (hv : Foreign T v) :
    cell T .interpreted op pos v = .ok (.bool false) := by
  unfold cell
  simp only [interpCompare_doc]
  cases op with
  | cmp o =>
    cases pos
    · exact richcmp_missing_left T o v
    · exact richcmp_missing_right T o v hv
  | isin => cases pos <;> simp [docImpl, applyCmpImpl, PVal.isMissing]
  | notin => cases pos <;> simp [docImpl, applyCmpImpl, PVal.isMissing]

/-- The cells of the compiled engine that Python decides without asking the sentinel. -/
def C08_compiledExcluded (op : SelOp) (pos : Pos) : Prop := op = .notin ∨ (op = .isin ∧ pos = .left)

/-- Compiled engine: the six orderings in both positions and `v in r.missing` are `False` without error. -/
theorem C08_compiled_table_partial (T : ClassTable) (op : SelOp) (pos : Pos) (v : PVal) (hv : Foreign T v)
    (hx : ¬ C08_compiledExcluded op pos) : cell T .compiled op pos v = .ok (.bool false) := by
  unfold cell
  cases op with
  | cmp o =>
    cases pos
    · exact richcmp_missing_left T o v
    · exact richcmp_missing_right T o v hv
  | isin =>
    cases pos
    · exact absurd (Or.inr ⟨rfl, rfl⟩) hx
    · simp [compiledCompare, pyIn_missing_right, Except.map]
  | notin => exact absurd (Or.inl rfl) hx

/-- Compiled engine, `r.missing in <list or tuple>`: `False` when no element is itself the sentinel and every
    element leaves `==` to the sentinel. -/
theorem C08_compiled_in_sequence (T : ClassTable) (xs : List PVal)
    (h : ∀ x ∈ xs, Foreign T x ∧ x.isMissing = false) :
    cell T .compiled .isin .left (.list xs) = .ok (.bool false) ∧
    cell T .compiled .isin .left (.tuple xs) = .ok (.bool false) := by
  simp [cell, compiledCompare, pyIn, listContains_missing T xs h, Except.map]

/-- The property as stated: every cell of the table is `False` without error. -/
def C08_table_statement : Prop :=
  ∀ (T : ClassTable) (eng : Engine) (op : SelOp) (pos : Pos) (v : PVal), Foreign T v →
    cell T eng op pos v = .ok (.bool false)

/-- What is provable: the table minus exactly the compiled engine's `not in` cells and its `r.missing in v` cells. -/
theorem C08_table_partial (T : ClassTable) (eng : Engine) (op : SelOp) (pos : Pos) (v : PVal) (hv : Foreign T v)
    (hx : ¬ (eng = .compiled ∧ C08_compiledExcluded op pos)) : cell T eng op pos v = .ok (.bool false) := by
  cases eng with
  | interpreted => exact C08_interpreted_table T op pos v hv
  | compiled => exact C08_compiled_table_partial T op pos v hv (fun h => hx ⟨rfl, h⟩)

/-- Known finding (stays): in the compiled engine `v not in r.missing` is **True for every `v`** — Python negates
    the sentinel's `__contains__`; no method of the sentinel can change that. -/
theorem C08_compiled_notin_right_true (T : ClassTable) (v : PVal) :
    cell T .compiled .notin .right v = .ok (.bool true) := by
  simp [cell, compiledCompare, pyNotIn, pyIn_missing_right, Except.map]

/-- Known finding (stays): `r.missing not in [..]` is True in the compiled engine (the list's `__contains__`
    answers False, Python negates it). -/
theorem C08_compiled_notin_left_true (T : ClassTable) (xs : List PVal)
    (h : ∀ x ∈ xs, Foreign T x ∧ x.isMissing = false) :
    cell T .compiled .notin .left (.list xs) = .ok (.bool true) := by
  simp [cell, compiledCompare, pyNotIn, pyIn, listContains_missing T xs h, Except.map]

/-- The trivial class table: no class answers anything (used for the witnesses). -/
def C08_T0 : ClassTable :=
  { cmp := fun _ _ _ => .notImpl, contains := fun _ => none, iter := fun _ => none, truthy := fun _ => true,
    ident := fun _ _ => false }

/-- The full statement is false of the model (and of the code): witness `r.missing not in [1]`, compiled engine. -/
theorem C08_table_counterexample : ¬ C08_table_statement := by
  intro h
  have h1 := h C08_T0 .compiled .notin .left (.list [.int 1]) (fun op => rfl)
  have h2 := C08_compiled_notin_left_true C08_T0 [.int 1] (by
    intro x hx
    simp only [List.mem_singleton] at hx
    subst hx
    exact ⟨fun op => rfl, rfl⟩)
  rw [h2] at h1
  cases h1

/-- Second finding: compiled `r.missing in v` raises TypeError when `v`'s class has a `__contains__` that rejects
    foreign operands (str, bytes) or when `v` is not a container at all (int, float, None, most field types):
    membership is decided by the right operand alone. -/
theorem C08_compiled_in_left_raises (T : ClassTable) (v : PVal)
    (hshape : ∀ xs, v ≠ .list xs ∧ v ≠ .tuple xs) (hm : v.isMissing = false)
    (hc : (∃ f, T.contains v = some f ∧ f .missing = .error .typeErr) ∨ (T.contains v = none ∧ T.iter v = none)) :
    (∃ e, cell T .compiled .isin .left v = .error e) ∧ (∃ e, cell T .compiled .notin .left v = .error e) := by
  cases v <;> simp_all [cell, compiledCompare, pyIn, pyNotIn, PVal.isMissing] <;>
    (rcases hc with ⟨f, hf, hfm⟩ | ⟨h1, h2⟩ <;> simp_all [Except.map])

/-- Why `Foreign` is needed: an operand whose class answers `!=` itself (a class with an `__eq__` that returns
    False for foreign objects inherits a `__ne__` that returns True — `command`, `net.ipaddress`, `net.ipnetwork`,
    records) makes `v != r.missing` True in both engines; the sentinel is never asked. -/
theorem C08_foreign_needed (T : ClassTable) (eng : Engine) (v : PVal) (hm : v.isMissing = false)
    (hne : T.cmp v .ne .missing = .val (.bool true)) :
    cell T eng (.cmp .ne) .right v = .ok (.bool true) := by
  cases eng <;> cases v <;>
    simp_all [cell, compiledCompare, interpCompare_doc, docImpl, applyCmpImpl, richcmp, slot, PVal.isMissing]

/-- The interpreted engine's BinOp guard fires exactly when an operand is the sentinel. -/
theorem C08_binop_guard (v : PVal) :
    binopGuard .missing v = true ∧ binopGuard v .missing = true ∧
    (v.isMissing = false → ∀ w : PVal, w.isMissing = false → binopGuard v w = false) := by
  refine ⟨rfl, by simp [binopGuard, PVal.isMissing], ?_⟩
  intro h w hw
  simp [binopGuard, h, hw]

/-! ### inside the interpreter: boolean contexts, streams, helpers -/

/-- `r.<f> <op> <c>` and `<c> <op> r.<f>` as expressions -/
def C08_cmpLeft (f : String) (op : SelOp) (c : Expr) : Expr := .compare (.attr (.name "r") f) [(op.astName, c)]
def C08_cmpRight (f : String) (op : SelOp) (c : Expr) : Expr := .compare c [(op.astName, .attr (.name "r") f)]

/-- Interpreted engine, missing field on the left, **any** other operand expression `c` that evaluates at all
    (to any value `v`): the comparison evaluates to False without error — through the full interpreter model
    (Name `r`, Attribute with the sentinel default, Compare with the generated operator table), for every
    primitive semantics whose rich comparison is Python's dispatch over some class table. -/
theorem C08_context_left (P : Prim) (T : ClassTable) (hP : ∀ o a b, P.rich o a b = richcmp T o a b)
    (fuel : Nat) (f : String) (op : SelOp) (c : Expr) (st s2 : St) (v : PVal)
    (hr : st.ns.lookup "r" = none) (hf : P.getattr st.record f = none) (hd : hasPrefix "__" f = false)
    (hc : interp P (fuel + 2) c { st with trace := st.trace ++ [.getattr st.record f] } = (s2, .ok v)) :
    interp P (fuel + 3) (C08_cmpLeft f op c) st = (s2, .ok (.bool false)) := by
  have h1 := interp_attr P (fuel + 1) (.name "r") f st st st.record hd (interp_name_r P fuel st hr)
  rw [hf] at h1
  rw [C08_cmpLeft, interp_compare1 P (fuel + 2) _ c _ st _ s2 .missing v h1 hc]
  exact link_missing_left P T hP op v s2

/-- Missing field on the right, for an operand that leaves the comparison to the sentinel. -/
theorem C08_context_right (P : Prim) (T : ClassTable) (hP : ∀ o a b, P.rich o a b = richcmp T o a b)
    (fuel : Nat) (f : String) (op : SelOp) (c : Expr) (st s1 : St) (v : PVal) (hv : Foreign T v)
    (ht : v.isTmatch = false) (hr : s1.ns.lookup "r" = none) (hf : P.getattr s1.record f = none)
    (hd : hasPrefix "__" f = false) (hc : interp P (fuel + 2) c st = (s1, .ok v)) :
    interp P (fuel + 3) (C08_cmpRight f op c) st
      = ({ s1 with trace := s1.trace ++ [.getattr s1.record f] }, .ok (.bool false)) := by
  have h1 := interp_attr P (fuel + 1) (.name "r") f s1 s1 s1.record hd (interp_name_r P fuel s1 hr)
  rw [hf] at h1
  rw [C08_cmpRight, interp_compare1 P (fuel + 2) c _ _ st s1 _ v .missing hc h1]
  exact link_missing_right P T hP op v hv ht _

/-- Under `not`, `and`, `or`: the comparison contributes False and nothing raises — `not C` is True, `C and y` is
    False without evaluating `y`, `C or y` is whatever `y` is. (`C` = any expression that evaluates to False, in
    particular the two comparisons above.) -/
theorem C08_boolean_contexts (P : Prim) (hfalse : P.truthy (.bool false) = false) (fuel : Nat) (C y : Expr)
    (st s1 : St) (hC : interp P fuel C st = (s1, .ok (.bool false))) :
    interp P (fuel + 1) (.unary "Not" C) st = (s1, .ok (.bool true)) ∧
    interp P (fuel + 1) (.boolop "And" [C, y]) st = (s1, .ok (.bool false)) ∧
    (∀ s2 w, interp P fuel y s1 = (s2, .ok w) → interp P (fuel + 1) (.boolop "Or" [C, y]) st = (s2, .ok w)) := by
  refine ⟨?_, interp_and_false P fuel C y st s1 _ hC hfalse, fun s2 w hy => interp_or_false P fuel C y st s1 s2 _ w hC hfalse hy⟩
  have := interp_not P fuel C st s1 _ hC
  simpa [hfalse] using this

/-- The interpreted engine's arithmetic guard, through the interpreter: `r.<f> <binop> c` with a missing field is
    False for **every** operator name (the guard precedes the table lookup). -/
theorem C08_binop_context (P : Prim) (fuel : Nat) (f opname : String) (c : Expr) (st s2 : St) (v : PVal)
    (hr : st.ns.lookup "r" = none) (hf : P.getattr st.record f = none) (hd : hasPrefix "__" f = false)
    (hc : interp P (fuel + 2) c { st with trace := st.trace ++ [.getattr st.record f] } = (s2, .ok v)) :
    interp P (fuel + 3) (.binop opname (.attr (.name "r") f) c) st = (s2, .ok (.bool false)) := by
  have h1 := interp_attr P (fuel + 1) (.name "r") f st st st.record hd (interp_name_r P fuel st hr)
  rw [hf] at h1
  have hk : Gen.evalNodeKinds.contains "BinOp" = true := by decide
  show evalStep P (interp P (fuel + 2)) _ st = _
  unfold evalStep
  simp only [Expr.kind, hk, Bool.not_true, Bool.false_eq_true, if_false, bind_eq, pure_eq]
  unfold M.bind
  simp only [h1, Option.getD_none, hc]
  simp [binopGuard, PVal.isMissing, M.pure]

/-- The reader loop (`if not selector or selector.match(obj): yield obj`; an exception ends the source). -/
def C08_readSel (m : PVal → Except Err Bool) : List PVal → List PVal × Option Err
  | [] => ([], none)
  | r :: rs =>
    match m r with
    | .error e => ([], some e)
    | .ok true => ((r :: (C08_readSel m rs).1), (C08_readSel m rs).2)
    | .ok false => C08_readSel m rs

/-- Filtering a heterogeneous stream: if the match on every record that **lacks** the field is False (which
    `C08_context_left/right` prove for the interpreted engine) and the match on every record that has it is the
    condition's value, the output is exactly the records that have the field and satisfy the condition, in order,
    and the source is never aborted — nothing after a record lacking the field is dropped. -/
theorem C08_filter (m : PVal → Except Err Bool) (has cond : PVal → Bool) (rs : List PVal)
    (hlacks : ∀ r ∈ rs, has r = false → m r = .ok false)
    (hhas : ∀ r ∈ rs, has r = true → m r = .ok (cond r)) :
    C08_readSel m rs = (rs.filter (fun r => has r && cond r), none) := by
  induction rs with
  | nil => rfl
  | cons r rs ih =>
    have ih' := ih (fun x hx => hlacks x (by simp [hx])) (fun x hx => hhas x (by simp [hx]))
    unfold C08_readSel
    cases hh : has r with
    | false =>
      rw [hlacks r (by simp) hh]
      simp [hh, ih']
    | true =>
      rw [hhas r (by simp) hh]
      cases hc : cond r <;> simp [hh, hc, ih']

/-- and conversely: one raising match loses the rest of the source (why a raising cell matters: finding #5 was
    masked in rdump exactly this way) -/
theorem C08_filter_abort (m : PVal → Except Err Bool) (r : PVal) (rs : List PVal) (e : Err) (h : m r = .error e) :
    C08_readSel m (r :: rs) = ([], some e) := by
  simp [C08_readSel, h]

/-- Helpers skip missing fields: the loop shared by `field_equals` / `field_contains` gives the same result as over
    the fields the record actually has. -/
theorem C08_helpers (T : ClassTable) (r : PVal) (test : PVal → PVal → Except Err Bool) (nocase : Bool)
    (strings : List PVal) (fields : List PVal) :
    fieldLoop T r test nocase strings fields =
      fieldLoop T r test nocase strings
        (fields.filter (fun f => match f with | .str n => (recGet r n).isSome | _ => true)) := by
  induction fields with
  | nil => rfl
  | cons f fs ih =>
    cases f <;> try (simp [fieldLoop])
    rename_i n
    cases hg : recGet r n with
    | none => simp [fieldLoop, hg, ih]
    | some fv =>
      simp only [List.filter_cons, hg, Option.isSome_some, if_true, fieldLoop]
      rw [ih]

-- Non-vacuity: `Foreign` is satisfiable by ordinary values, and the cells compute.
namespace C08_nonvacuous
example : Foreign C08_T0 (.int 1) := fun _ => rfl
example : Foreign C08_T0 (.list [.str "a"]) := fun _ => rfl
example : cell C08_T0 .compiled (.cmp .le) .right (.int 1) = .ok (.bool false) := rfl
example : cell C08_T0 .interpreted .notin .left (.list [.int 1]) = .ok (.bool false) := rfl
example : cell C08_T0 .compiled .isin .left (.int 5) = .error .typeErr := rfl
example : cell C08_T0 .compiled .isin .left .none = .error .typeErrNone := rfl
/-- a class table in which `Foreign` fails (the class answers `!=`), so the hypothesis is not vacuous either way -/
def T1 : ClassTable := { C08_T0 with cmp := fun _ op _ => if op = .ne then .val (.bool true) else .notImpl }
example : ¬ Foreign T1 (.int 1) := fun h => by have := h .ne; simp [slot, T1] at this
end C08_nonvacuous
