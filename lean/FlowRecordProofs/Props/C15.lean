import FlowRecordProofs.Lemmas.ComposeMore
import FlowRecord.Gen.Pipeline
/-!
C15 — record composition follows the documented precedence rules.
Property theorems only, all by list induction over association-list models (`Model/Compose.lean`); values are
opaque (`V` arbitrary). Field tuples are `(type, name)` as `get_field_tuples()` returns them.
-/
open FlowRecord FlowRecord.Descriptor FlowRecord.Compose

/-- all field tuples of a descriptor list, in order -/
def C15_allTuples (descs : List (List (Str × Str))) : List (Str × Str) := descs.flatMap id

/-- Merged field ORDER, for every list of descriptors (repeated names and differing types included), with or
    without `replace`: the distinct field names in order of first appearance. -/
theorem C15_merge_order (replace : Bool) (descs : List (List (Str × Str))) :
    (mergeFields replace descs).map (·.2) = firstOcc ((C15_allTuples descs).map (·.2)) := by
  have h := keys_mergeMap replace descs
  unfold mergeFields
  simp only [List.map_map]
  have e : ((fun p : Str × Str => p.2) ∘ fun p : Str × Str => (p.2, p.1)) = (·.1) := rfl
  rw [e]
  have e2 : (descs.flatMap nameTypes).map (·.1) = (C15_allTuples descs).map (·.2) := by
    rw [flatMap_nameTypes, keys_nameTypes]; rfl
  rw [← e2]; exact h

/-- … hence: the fields of the first descriptor (when its names are distinct) come first, in order, then the
    unseen names of the later descriptors in order of first appearance. -/
theorem C15_merge_first_then_unseen (replace : Bool) (d : List (Str × Str)) (ds : List (List (Str × Str)))
    (hd : (d.map (·.2)).Nodup) :
    (mergeFields replace (d :: ds)).map (·.2) =
      d.map (·.2) ++ (firstOcc ((C15_allTuples ds).map (·.2))).filter (fun n => !(d.map (·.2)).contains n) := by
  rw [C15_merge_order]
  unfold C15_allTuples
  simp only [List.flatMap_cons, id, List.map_append]
  rw [firstOcc_append, firstOcc_nodup_eq _ hd]

/-- FIRST WINS for field types: without `replace`, the type of every merged field is the type of its first
    occurrence among all field tuples. -/
theorem C15_merge_first_wins (descs : List (List (Str × Str))) (n : Str) :
    alGet (nameTypes (mergeFields false descs)) n = alGet (nameTypes (C15_allTuples descs)) n := by
  have e : nameTypes (mergeFields false descs) = mergeMap false descs := by
    simp [nameTypes, mergeFields, List.map_map, Function.comp_def]
  rw [e, mergeMap_flat, alGet_foldl_noreplace, alGet_nil]
  rw [flatMap_nameTypes]; simp [C15_allTuples]

/-- LAST WINS for field types under `replace=True`: the type of every merged field is the type of its last
    occurrence (its position stays that of the first occurrence, `C15_merge_order`). -/
theorem C15_merge_last_wins_on_replace (descs : List (List (Str × Str))) (n : Str) :
    alGet (nameTypes (mergeFields true descs)) n = alGet (nameTypes (C15_allTuples descs)).reverse n := by
  have e : nameTypes (mergeFields true descs) = mergeMap true descs := by
    simp [nameTypes, mergeFields, List.map_map, Function.comp_def]
  rw [e, mergeMap_flat, alGet_foldl_replace, alGet_nil]
  rw [flatMap_nameTypes]; simp [C15_allTuples]

/-- no declared field name of any of the records is a reserved name (validation guarantees it, C06) -/
abbrev C15_noReserved {V : Type} (recs : List (Rec V)) : Prop := noReserved recs

/-- VALUES of an extended record, for every list of records: each slot (merged field or metadata field, other
    than the always re-stamped `_version`) holds the value found first when the records' slots are searched in
    priority order — the given order, reversed under `replace`. -/
theorem C15_extend_values {V : Type} (none : Str → V) (ver : V) (replace : Bool) (name : Option Str)
    (r : Rec V) (others : List (Rec V)) (k : Str) (v : V) (hnr : C15_noReserved (r :: others))
    (hk : k ∈ (mergeFields replace ((r :: others).map (·.fields))).map (·.2) ∨ k ∈ reservedNames)
    (hv : k ≠ versionName)
    (hget : alGet ((if replace then (r :: others).reverse else r :: others).flatMap (·.slots)) k = some v) :
    alGet (extendRecord none ver replace name r others).slots k = some v :=
  extend_values none ver replace name r others k v hnr hk hv hget

/-- FIRST WINS for values: the value comes from the first record that has the slot. -/
theorem C15_extend_first_wins {V : Type} (none : Str → V) (ver : V) (name : Option Str)
    (r : Rec V) (others pre post : List (Rec V)) (x : Rec V) (k : Str) (v : V) (hnr : C15_noReserved (r :: others))
    (hsplit : r :: others = pre ++ x :: post) (hpre : ∀ p ∈ pre, k ∉ keys p.slots) (hx : alGet x.slots k = some v)
    (hk : k ∈ (mergeFields false ((r :: others).map (·.fields))).map (·.2) ∨ k ∈ reservedNames)
    (hv : k ≠ versionName) :
    alGet (extendRecord none ver false name r others).slots k = some v :=
  extend_first_wins none ver name r others pre post x k v hnr hsplit hpre hx hk hv

/-- LAST WINS for values under `replace=True`: the value comes from the last record that has the slot. -/
theorem C15_extend_last_wins_on_replace {V : Type} (none : Str → V) (ver : V) (name : Option Str)
    (r : Rec V) (others pre post : List (Rec V)) (x : Rec V) (k : Str) (v : V) (hnr : C15_noReserved (r :: others))
    (hsplit : r :: others = pre ++ x :: post) (hpost : ∀ p ∈ post, k ∉ keys p.slots) (hx : alGet x.slots k = some v)
    (hk : k ∈ (mergeFields true ((r :: others).map (·.fields))).map (·.2) ∨ k ∈ reservedNames)
    (hv : k ≠ versionName) :
    alGet (extendRecord none ver true name r others).slots k = some v :=
  extend_last_wins none ver name r others pre post x k v hnr hsplit hpost hx hk hv

/-- The extended record's descriptor: merged fields, the first record's name unless renamed; its slots are the
    merged names followed by the reserved metadata fields; `_version` is re-stamped. -/
theorem C15_extend_shape {V : Type} (none : Str → V) (ver : V) (replace : Bool) (name : Option Str)
    (r : Rec V) (others : List (Rec V)) (hnr : C15_noReserved (r :: others)) :
    let out := extendRecord none ver replace name r others
    out.name = name.getD r.name ∧
    out.fields = mergeFields replace ((r :: others).map (·.fields)) ∧
    keys out.slots = out.fields.map (·.2) ++ reservedNames ∧
    alGet out.slots versionName = some ver :=
  extend_shape none ver replace name r others hnr

/-- the datetime fields `iter_timestamped_records` loops over (`record._desc.getfields("datetime")`) -/
def C15_dtNames {V : Type} (r : Rec V) : List Str := ((fieldMap r.fields).filter (·.2 == dtType)).map (·.1)

/-- … for a well-formed record these are its datetime fields in field order -/
theorem C15_ts_field_order {V : Type} (r : Rec V) (hr : WF r) :
    C15_dtNames r = (r.fields.filter (·.1 == dtType)).map (·.2) := by
  unfold C15_dtNames
  rw [fieldMap_nodup r.fields hr.nodup]
  unfold nameTypes
  induction r.fields with
  | nil => rfl
  | cons f fs ih =>
    simp only [List.map_cons, List.filter_cons]
    by_cases h : (f.1 == dtType) = true <;> simp [h, ih]

/-- PER-TIMESTAMP EXPANSION (the loop as the code runs it: the loop's record is re-bound in every round, the
    timestamp and the metadata are read from the original). For every well-formed record, every value type, every
    position and name of its datetime fields — `ts` and `ts_description` included:
    no datetime field ⇒ the record itself; otherwise one output per datetime field, in field order, and output `i`
    is named like the original, has fields `ts, ts_description` + the original fields not called ts/ts_description,
    `ts` = the ORIGINAL record's value of the i-th datetime field, `ts_description` = that field's name, every other
    original field with its original value, and the original's `_source`, `_classification`, `_generated`. -/
theorem C15_ts {V : Type} (none : Str → V) (ver : V) (nameVal : Str → V) (r : Rec V) (hr : WF r) :
    (C15_dtNames r = [] → tsExpand none ver nameVal r = [r]) ∧
    (C15_dtNames r ≠ [] →
      (tsExpand none ver nameVal r).length = (C15_dtNames r).length ∧
      ∀ (i : Nat) (o : Rec V) (f : Str), (tsExpand none ver nameVal r)[i]? = some o → (C15_dtNames r)[i]? = some f →
        o.name = r.name ∧
        o.fields = tsFields ++ r.fields.filter notTs ∧
        alGet o.slots tsName = alGet r.slots f ∧
        alGet o.slots tsDescName = some (nameVal f) ∧
        (∀ g ∈ r.fields, notTs g = true → alGet o.slots g.2 = alGet r.slots g.2) ∧
        alGet o.slots (cps "_source") = alGet r.slots (cps "_source") ∧
        alGet o.slots (cps "_classification") = alGet r.slots (cps "_classification") ∧
        alGet o.slots (cps "_generated") = alGet r.slots (cps "_generated") ∧
        alGet o.slots versionName = some ver) := by
  have hsub : ∀ f ∈ C15_dtNames r, f ∈ r.fields.map (·.2) := by
    intro f hf
    rw [C15_ts_field_order r hr] at hf
    obtain ⟨g, hg, rfl⟩ := List.mem_map.mp hf
    exact List.mem_map.mpr ⟨g, (List.mem_filter.mp hg).1, rfl⟩
  constructor
  · intro h
    unfold tsExpand
    unfold C15_dtNames at h
    simp [h]
  · intro h
    have hne : (C15_dtNames r).isEmpty = false := by
      cases hd : C15_dtNames r with
      | nil => exact absurd hd h
      | cons a l => rfl
    have hexp : tsExpand none ver nameVal r = tsLoop none ver nameVal r r (C15_dtNames r) := by
      unfold tsExpand
      unfold C15_dtNames at hne ⊢
      simp only [hne, Bool.false_eq_true, if_false]
    rw [hexp]
    obtain ⟨hlen, hall⟩ := ts_loop none ver nameVal r hr (C15_dtNames r) r (tsInv_refl r hr) hsub
    refine ⟨hlen, ?_⟩
    intro i o f ho hf
    have := hall i o f ho hf
    exact ⟨this.name, this.fields, this.ts, this.desc, this.keeps, this.source, this.classification,
      this.generated, this.version⟩

/-- GROUPED RECORD, flat view: for well-formed members the flat descriptor is the first-wins merge of the members'
    descriptors (so `C15_merge_order` / `C15_merge_first_wins` describe its field order and types), and attribute
    access returns the value of the first member that has the slot — metadata fields included. -/
theorem C15_grouped_first_wins {V : Type} (members pre post : List (Rec V)) (x : Rec V) (k : Str) (v : V)
    (hwf : ∀ m ∈ members, WF m) (hsplit : members = pre ++ x :: post) (hpre : ∀ p ∈ pre, k ∉ keys p.slots)
    (hx : alGet x.slots k = some v) :
    groupedFields members = mergeFields false (members.map (·.fields)) ∧ groupedGet members k = some v := by
  refine ⟨groupedFields_eq members hwf, ?_⟩
  unfold groupedGet
  rw [chainGet_eq, hsplit]
  have : ((pre ++ x :: post).map (·.slots)).flatten = (pre ++ x :: post).flatMap (·.slots) := by
    simp [List.flatMap_def]
  rw [this]
  exact alGet_flatMap_first (·.slots) pre post x k v hpre hx

/-- A field rewriter takes the values of the record it rewrites from the record's DICTIONARY view
    (`init_from_dict(ChainMap(local_dict, record._asdict()))`, regenerated as `Gen.rewriterKeepsAllValues`) - for a
    grouped record that is the view of the theorem below, not attribute access on the group object (which serves the
    group's own `name`, `records`, ...). -/
theorem C15_rewriter_reads_the_dictionary_view : Gen.rewriterKeepsAllValues = true := by decide

/-- GROUPED RECORD, dictionary view: `_asdict()` holds, for EVERY key of the flat view - also one spelled like an
    attribute of the group object itself (`name`, `records`, `descriptors`, `flat_fields`) - the value of the first
    member that has the slot. (Before fix 619dd93 the value was read with `getattr(group, key)`; the premise is the
    regenerated source fact.) -/
theorem C15_grouped_asdict_from_provider {V : Type} (own : Str → V) (members pre post : List (Rec V)) (x : Rec V)
    (k : Str) (v : V) (hsplit : members = pre ++ x :: post) (hpre : ∀ p ∈ pre, k ∉ keys p.slots)
    (hx : alGet x.slots k = some v) :
    groupedAsdictGet own members k = some v := by
  have hgen : Gen.groupedAsdictFromProvider = true := by decide
  unfold groupedAsdictGet
  rw [if_pos hgen]
  unfold groupedGet
  rw [chainGet_eq, hsplit]
  have : ((pre ++ x :: post).map (·.slots)).flatten = (pre ++ x :: post).flatMap (·.slots) := by
    simp [List.flatMap_def]
  rw [this]
  exact alGet_flatMap_first (·.slots) pre post x k v hpre hx

/-- … whereas ATTRIBUTE access on the group cannot serve such a field: `group.name` is the group's own type name
    whatever the members hold (public API; recorded as a limitation, not repaired). -/
theorem C15_grouped_getattr_own_attribute_wins {V : Type} (own : Str → V) (members : List (Rec V)) :
    groupedGetattr own members (cps "name") = some (own (cps "name")) := by
  have h : groupOwnAttrs.contains (cps "name") = true := by decide
  unfold groupedGetattr
  rw [if_pos h]

/-- … and a name no member has is not an attribute of the group. -/
theorem C15_grouped_missing {V : Type} (members : List (Rec V)) (k : Str) (h : ∀ m ∈ members, k ∉ keys m.slots) :
    groupedGet members k = Option.none := by
  unfold groupedGet
  rw [chainGet_eq, alGet_eq_none_iff]
  intro hk
  obtain ⟨p, hp, hpk⟩ := List.mem_map.mp hk
  obtain ⟨sl, hsl, hps⟩ := List.mem_flatten.mp hp
  obtain ⟨m, hm, rfl⟩ := List.mem_map.mp hsl
  exact h m hm (List.mem_map.mpr ⟨p, hps, hpk⟩)

/-- `_replace` changes ONLY the named slots: it fails exactly when a keyword is not a slot; otherwise descriptor and
    slot list are those of the original, a named slot holds the given value, every other slot (except the re-stamped
    `_version`) its original value. -/
theorem C15_replace_only_named {V : Type} (ver : V) (r : Rec V) (kvs : List (Str × V)) :
    (replaceRec ver r kvs = Option.none ↔ ∃ p ∈ kvs, p.1 ∉ keys r.slots) ∧
    (∀ out, replaceRec ver r kvs = some out →
      out.name = r.name ∧ out.fields = r.fields ∧ keys out.slots = keys r.slots ∧
      ∀ k ∈ keys r.slots, k ≠ versionName →
        (∀ v, alGet kvs k = some v → alGet out.slots k = some v) ∧
        (k ∉ keys kvs → alGet out.slots k = alGet r.slots k)) := by
  constructor
  · unfold replaceRec
    by_cases h : (kvs.any fun p => !(keys r.slots).contains p.1) = true
    · simp only [h, if_true, true_iff]
      obtain ⟨p, hp, hc⟩ := List.any_eq_true.mp h
      exact ⟨p, hp, by simpa using hc⟩
    · simp only [h, Bool.false_eq_true, if_false]
      constructor
      · intro hh; cases hh
      · rintro ⟨p, hp, hc⟩
        exfalso; apply h
        exact List.any_eq_true.mpr ⟨p, hp, by simpa using hc⟩
  · intro out hout
    have hshape : out.name = r.name ∧ out.fields = r.fields ∧ keys out.slots = keys r.slots := by
      unfold replaceRec at hout
      split at hout
      · cases hout
      · simp only [Option.some.injEq] at hout
        subst hout
        simp [keys, List.map_map, Function.comp_def]
    refine ⟨hshape.1, hshape.2.1, hshape.2.2, ?_⟩
    intro k hk hv
    have := alGet_replaceRec ver r out kvs hout k hk hv
    constructor
    · intro v hkv; rw [this, hkv]; rfl
    · intro hnk
      rw [this, (alGet_eq_none_iff kvs k).mpr hnk]; rfl

/-- PROJECTION (`rdump -F` / `-X`, `RecordFieldRewriter`): with a field list, the new descriptor has exactly the
    requested names that exist in the record and are not excluded, in the REQUESTED order, each with its type in the
    record; without a field list, the record's fields minus the excluded ones, in record order. -/
theorem C15_projection_fields (fields exclude : List Str) (desc : List (Str × Str)) :
    (fields ≠ [] →
      (projectFields fields exclude desc).map (·.2) =
        fields.filter (fun n => !exclude.contains n && (desc.map (·.2)).contains n) ∧
      ∀ f ∈ projectFields fields exclude desc, alGet (fieldMap desc) f.2 = some f.1) ∧
    (fields = [] → exclude ≠ [] → projectFields fields exclude desc = desc.filter (fun f => !exclude.contains f.2)) ∧
    (fields = [] → exclude = [] → projectFields fields exclude desc = desc) := by
  have hkeys : keys (fieldMap desc) = firstOcc (desc.map (·.2)) := by
    unfold fieldMap; rw [keys_odOfList, keys_nameTypes]
  refine ⟨?_, ?_, ?_⟩
  · intro hf
    have hne : fields.isEmpty = false := by cases fields <;> simp_all
    unfold projectFields
    simp only [hne, Bool.false_and, Bool.false_eq_true, if_false, Bool.not_false, if_true]
    constructor
    · clear hf hne
      induction fields with
      | nil => rfl
      | cons n ns ih =>
        simp only [List.filterMap_cons, List.filter_cons]
        by_cases hx : exclude.contains n = true
        · simp only [hx, if_true, Bool.not_true, Bool.false_and, Bool.false_eq_true, if_false]; exact ih
        · simp only [hx, Bool.false_eq_true, if_false, Bool.not_false, Bool.true_and]
          by_cases hm : n ∈ desc.map (·.2)
          · have hk : n ∈ keys (fieldMap desc) := by rw [hkeys]; exact (mem_firstOcc _ _).mpr hm
            have := (alGet_isSome_iff (fieldMap desc) n).mpr hk
            cases hg : alGet (fieldMap desc) n with
            | none => simp [hg] at this
            | some t =>
              have hc : (desc.map (·.2)).contains n = true := by simp [hm]
              simp only [Option.map_some, hc, if_true, List.map_cons]
              rw [ih]
          · have hk : n ∉ keys (fieldMap desc) := by rw [hkeys]; exact fun h => hm ((mem_firstOcc _ _).mp h)
            have hg := (alGet_eq_none_iff (fieldMap desc) n).mpr hk
            have hc : (desc.map (·.2)).contains n = false := by simp [hm]
            simp only [hg, Option.map_none, hc, Bool.false_eq_true, if_false]
            exact ih
    · intro f hfm
      obtain ⟨n, _, hn⟩ := List.mem_filterMap.mp hfm
      by_cases hx : exclude.contains n = true
      · rw [if_pos hx] at hn; cases hn
      · simp only [hx, Bool.false_eq_true, if_false] at hn
        cases hg : alGet (fieldMap desc) n with
        | none => simp [hg] at hn
        | some t =>
          simp only [hg, Option.map_some, Option.some.injEq] at hn
          subst hn; exact hg
  · intro hf hx
    subst hf
    have : exclude.isEmpty = false := by cases exclude <;> simp_all
    simp [projectFields, this]
  · intro hf hx
    subst hf; subst hx
    simp [projectFields]

/-- … and projection changes no value: every slot of the projected record (kept field or metadata field, other
    than the re-stamped `_version`) holds the original record's value. -/
theorem C15_projection_values {V : Type} (none : Str → V) (ver : V) (fields exclude : List Str) (r : Rec V) (hr : WF r)
    (k : Str) (hk : k ∈ keys (rewrite none ver fields exclude r).slots) (hv : k ≠ versionName) :
    alGet (rewrite none ver fields exclude r).slots k = alGet r.slots k := by
  unfold rewrite at hk ⊢
  by_cases h0 : (fields.isEmpty && exclude.isEmpty) = true
  · simp only [h0, if_true]
  · simp only [h0, Bool.false_eq_true, if_false] at hk ⊢
    rw [keys_initFromDict] at hk
    -- the kept names are names of the record
    have hsubset : ∀ n ∈ (projectFields fields exclude r.fields).map (·.2), n ∈ r.fields.map (·.2) := by
      intro n hn
      obtain ⟨f, hf, rfl⟩ := List.mem_map.mp hn
      unfold projectFields at hf
      simp only [h0, Bool.false_eq_true, if_false] at hf
      split at hf
      · obtain ⟨m, _, hm⟩ := List.mem_filterMap.mp hf
        by_cases hx : exclude.contains m = true
        · rw [if_pos hx] at hm; cases hm
        · simp only [hx, Bool.false_eq_true, if_false] at hm
          cases hg : alGet (fieldMap r.fields) m with
          | none => simp [hg] at hm
          | some t =>
            simp only [hg, Option.map_some, Option.some.injEq] at hm
            subst hm
            have : m ∈ keys (fieldMap r.fields) := (alGet_isSome_iff _ _).mp (by simp [hg])
            unfold fieldMap at this
            rw [keys_odOfList, keys_nameTypes] at this
            exact (mem_firstOcc _ _).mp this
      · exact List.mem_map.mpr ⟨f, (List.mem_filter.mp hf).1, rfl⟩
    have hnores : ∀ n ∈ (projectFields fields exclude r.fields).map (·.2), n ∉ reservedNames :=
      fun n hn => hr.nores n (hsubset n hn)
    rw [keys_slotTypes _ hnores] at hk
    have hkr : k ∈ keys r.slots := by
      rw [hr.slots]
      rcases List.mem_append.mp hk with h | h
      · exact List.mem_append_left _ (hsubset k ((mem_firstOcc _ _).mp h))
      · exact List.mem_append_right _ h
    cases hg : alGet r.slots k with
    | none => exact absurd ((alGet_isSome_iff _ _).mpr hkr) (by simp [hg])
    | some v =>
      apply alGet_initFromDict _ _ _ _ _ k v _ hv hg
      rw [keys_slotTypes _ hnores]; exact hk

/-- The source has the statements the model transcribes (`merge_record_descriptors`, `extend_record`, the prelude
    and loop facts of `iter_timestamped_records`, `_replace`, `init_from_dict`, `record_descriptor_for_fields`):
    re-decided on every run against the statements extracted from the working tree. -/
theorem C15_source_shape :
    Gen.mergeStatements = ["field_map = collections.OrderedDict()", "for desc in descriptors: for ftype, fname in desc.get_field_tuples(): if not replace and fname in field_map: continue field_map[fname] = ftype", "if name is None and descriptors: name = descriptors[0].name", "return RecordDescriptor(name, zip(field_map.values(), field_map.keys()))"] ∧
    Gen.extendStatements = ["records = (record, *other_records)", "descriptors = tuple((rec._desc for rec in records))", "ExtendedRecord = merge_record_descriptors(descriptors, replace, name)", "kv_maps = tuple((rec._asdict() for rec in records))", "if replace: kv_maps = kv_maps[::-1]", "return ExtendedRecord.init_from_dict(collections.ChainMap(*kv_maps))"] ∧
    Gen.tsPrelude = ["dt_fields = record._desc.getfields('datetime')", "if not dt_fields: yield record return", "record_name = record._desc.name", "original = record"] ∧
    Gen.tsLoopAssigns = ["ts_record", "record"] ∧
    Gen.tsValueSource = "original" ∧
    Gen.tsMetaKwargs = [("_source", "original"), ("_classification", "original"), ("_generated", "original")] ∧
    Gen.tsExtendArg = "record" ∧
    Gen.replaceStatements = ["result = self.__class__(*map(kwds.pop, self.__slots__, (getattr(self, k) for k in self.__slots__)))", "if kwds: raise ValueError('Got unexpected field names: {kwds!r}'.format(kwds=list(kwds)))", "return result"] ∧
    Gen.initFromDictStatements = ["if not raise_unknown: rdict = {k: v for k, v in rdict.items() if k in self.recordType.__slots__}", "return self.recordType(**rdict)"] ∧
    Gen.projectStatements = ["if not fields and (not exclude) and (not new_fields): return descriptor", "exclude = exclude or []", "desc_fields = []", "if fields: for fname in fields: if fname in exclude: continue field = descriptor.fields.get(fname, None) if field: desc_fields.append((field.typename, field.name)) else: desc_fields = [(ftype, fname) for ftype, fname in descriptor.get_field_tuples() if fname not in exclude]", "if new_fields: desc_fields.extend(new_fields)", "return RecordDescriptor(descriptor.name, desc_fields)"] :=
  ⟨rfl, rfl, rfl, rfl, rfl, rfl, rfl, rfl, rfl, rfl⟩

-- Non-vacuity: concrete records on which the hypotheses hold and the functions do what the theorems say.
namespace C15_nonvacuous
def rA : Rec Nat := ⟨cps "t/x", [(cps "datetime", cps "created"), (cps "datetime", cps "ts"), (cps "string", cps "a")],
  [(cps "created", 10), (cps "ts", 20), (cps "a", 30), (cps "_source", 1), (cps "_classification", 2),
   (cps "_generated", 3), (cps "_version", 4)]⟩
example : WF rA := ⟨by decide, by decide, by decide⟩
example : C15_dtNames rA = [cps "created", cps "ts"] := by decide
-- the fixed defect: the second expanded record carries the ORIGINAL value of the field named ts (20, not 10)
example : ((tsExpand (fun _ => 0) 4 (fun _ => 99) rA).map fun o => (alGet o.slots tsName, alGet o.slots (cps "a"),
    alGet o.slots (cps "_source"))) = [(some 10, some 30, some 1), (some 20, some 30, some 1)] := by decide
example : mergeFields false [[(cps "string", cps "a"), (cps "varint", cps "b")], [(cps "float", cps "b"), (cps "uint16", cps "c")]]
    = [(cps "string", cps "a"), (cps "varint", cps "b"), (cps "uint16", cps "c")] := by decide
example : mergeFields true [[(cps "string", cps "a"), (cps "varint", cps "b")], [(cps "float", cps "b"), (cps "uint16", cps "c")]]
    = [(cps "string", cps "a"), (cps "float", cps "b"), (cps "uint16", cps "c")] := by decide
example : projectFields [cps "a", cps "zz", cps "created"] [cps "created"] rA.fields = [(cps "string", cps "a")] := by decide
end C15_nonvacuous
