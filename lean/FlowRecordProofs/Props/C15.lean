import FlowRecordProofs.Lemmas.Compose
/-!
C15 — record composition follows the documented precedence rules.
Property theorems only, all by list induction over association-list models (`Model/Compose.lean`); values are
opaque (`V` arbitrary). Field tuples are `(type, name)` as `get_field_tuples()` returns them.
-/
open FlowRecord FlowRecord.Descriptor FlowRecord.Compose

/-- all field tuples of a descriptor list, in order -/
def C15_allTuples (descs : List (List (Str × Str))) : List (Str × Str) := descs.flatMap id

/-- Merged field ORDER, for every list of descriptors (repeated names and differing types included), with or
    without `replace`: the distinct field names in order of first appearance. -/
theorem C15_merge_order (replace : Bool) (descs : List (List (Str × Str))) :
    (mergeFields replace descs).map (·.2) = firstOcc ((C15_allTuples descs).map (·.2)) := by
  have h := keys_mergeMap replace descs
  unfold mergeFields
  simp only [List.map_map]
  have e : ((fun p : Str × Str => p.2) ∘ fun p : Str × Str => (p.2, p.1)) = (·.1) := rfl
  rw [e]
  have e2 : (descs.flatMap nameTypes).map (·.1) = (C15_allTuples descs).map (·.2) := by
    unfold C15_allTuples nameTypes
    induction descs with
    | nil => rfl
    | cons d ds ih => simp only [List.flatMap_cons, List.map_append, ih, List.map_map, id]; rfl
  rw [← e2]; exact h

/-- … hence: the fields of the first descriptor (when its names are distinct) come first, in order, then the
    unseen names of the later descriptors in order of first appearance. -/
theorem C15_merge_first_then_unseen (replace : Bool) (d : List (Str × Str)) (ds : List (List (Str × Str)))
    (hd : (d.map (·.2)).Nodup) :
    (mergeFields replace (d :: ds)).map (·.2) =
      d.map (·.2) ++ (firstOcc ((C15_allTuples ds).map (·.2))).filter (fun n => !(d.map (·.2)).contains n) := by
  rw [C15_merge_order]
  have happ : ∀ (a b : List Str), firstOcc (a ++ b) = firstOcc a ++ (firstOcc b).filter (fun n => !(firstOcc a).contains n) := by
    intro a
    induction a with
    | nil => intro b; simp [firstOcc]
    | cons x a ih =>
      intro b
      simp only [List.cons_append, firstOcc, ih, List.filter_append, List.filter_filter]
      congr 2
      apply List.filter_congr
      intro y _
      by_cases hy : y = x
      · subst hy; simp
      · simp [hy, mem_firstOcc]
  unfold C15_allTuples
  simp only [List.flatMap_cons, id, List.map_append]
  rw [happ, firstOcc_nodup_eq _ hd]

/-- FIRST WINS for field types: without `replace`, the type of every merged field is the type of its first
    occurrence among all field tuples. -/
theorem C15_merge_first_wins (descs : List (List (Str × Str))) (n : Str) :
    alGet (nameTypes (mergeFields false descs)) n = alGet (nameTypes (C15_allTuples descs)) n := by
  have e : nameTypes (mergeFields false descs) = mergeMap false descs := by
    simp [nameTypes, mergeFields, List.map_map, Function.comp_def]
  rw [e, mergeMap_flat, alGet_foldl_noreplace, alGet_nil]
  have e2 : descs.flatMap nameTypes = nameTypes (C15_allTuples descs) := by
    unfold C15_allTuples nameTypes
    induction descs with
    | nil => rfl
    | cons d ds ih => simp only [List.flatMap_cons, List.map_append, ih, id]
  rw [e2]; simp

/-- LAST WINS for field types under `replace=True`: the type of every merged field is the type of its last
    occurrence (its position stays that of the first occurrence, `C15_merge_order`). -/
theorem C15_merge_last_wins_on_replace (descs : List (List (Str × Str))) (n : Str) :
    alGet (nameTypes (mergeFields true descs)) n = alGet (nameTypes (C15_allTuples descs)).reverse n := by
  have e : nameTypes (mergeFields true descs) = mergeMap true descs := by
    simp [nameTypes, mergeFields, List.map_map, Function.comp_def]
  rw [e, mergeMap_flat, alGet_foldl_replace, alGet_nil]
  have e2 : descs.flatMap nameTypes = nameTypes (C15_allTuples descs) := by
    unfold C15_allTuples nameTypes
    induction descs with
    | nil => rfl
    | cons d ds ih => simp only [List.flatMap_cons, List.map_append, ih, id]
  rw [e2]; simp
