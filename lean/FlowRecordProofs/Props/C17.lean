import FlowRecordProofs.Lemmas.PackIgnore
import FlowRecordProofs.Lemmas.Writers
/-!
C17 — writers lose nothing: close, split and rotation keep every record once.

Property theorems only (helpers: `Lemmas/Writers.lean`, model: `FlowRecord/Model/Writers.lean`).
`Life` is the generic writer lifecycle machine; per adapter it is instantiated by `Flags` whose critical entries are
extracted from the source (`Gen.avroCloseFlushes`, `Gen.sqliteCloseFlushes`, `Gen.streamCloseWritesHeader`,
`Gen.streamFlushWritesHeader`, `Gen.avroFlushCreatesWriter`, `Gen.exitFlushesThenCloses`, `Gen.splitRotateTest`,
`Gen.rotateNeverOverwrites`). `disk` is what has been handed to the file object: that CPython/the OS write a file's own
buffer out on `close()` is not modelled (named in the harness as trusted); `__del__`-time closing is outside the model.
-/
open FlowRecord FlowRecord.Writers

/-- Closed ⇒ complete, for every adapter whose `close` flushes its own buffer (or that has none): for every history
    `pre ++ [cl] ++ suf` where `pre` holds only writes and flushes, `cl` is `close` or leaving a with-block and `suf` is
    anything at all (a second close, more writes, …), the output holds exactly the records written before `cl`, once
    each, in order; nothing stays in a buffer. For an adapter whose header-only flush fixes the schema (Avro) the
    history must not flush before the first write. -/
theorem C17_closed_complete {R : Type} (F : Flags) (hF : F.closeFlushes = true ∨ F.writeBuffers = false)
    (pre : List (Op R)) (cl : Op R) (suf : List (Op R))
    (hpre : ∀ op ∈ pre, isClosing op = false) (hcl : isClosing cl = true)
    (hP : F.headerOnlyFlushPoisons = false ∨ flushBeforeFirstWrite pre = false) :
    (run F Life.init (pre ++ cl :: suf)).disk = (writesIn pre).map Stored.full ∧
    (run F Life.init (pre ++ cl :: suf)).buffer = [] ∧
    (run F Life.init (pre ++ cl :: suf)).isOpen = false := by
  have h1 := healthy_run F pre Life.init [] (healthy_init F) hpre
    (by rcases hP with h | h; exact Or.inl h; exact Or.inr (Or.inr h))
  obtain ⟨hd, hb, ho⟩ := healthy_closing F (run F Life.init pre) (writesIn pre) cl (by simpa using h1) hcl hF
  rw [run_append, run_cons, run_closed F suf _ ho]
  exact ⟨hd, hb, ho⟩

/-- Refused writes lose nothing. `Op.bad` is a write the adapter refuses (SQLite: an integer outside 64 bits; stream:
    text that cannot be encoded): it raises, stores nothing, and leaves behind at most the header and - when the record
    type was new - a commit of what was pending. `C17_closed_complete` quantifies over ALL histories, these included;
    spelled out: whatever refused writes are interleaved, after the closing call the output holds exactly the records of
    the writes that were NOT refused, once each, in order. -/
theorem C17_refused_writes_lose_nothing {R : Type} :
    ∀ F ∈ [streamFlags, plainFlags, sqliteFlags], ∀ (pre : List (Op R)) (cl : Op R) (suf : List (Op R)),
      (∀ op ∈ pre, isClosing op = false) → isClosing cl = true →
      (run F Life.init (pre ++ cl :: suf)).disk = (writesIn pre).map Stored.full ∧
      writesIn (pre.filter (fun op => match op with | .bad _ => false | _ => true)) = writesIn pre := by
  intro F hFm pre cl suf hpre hcl
  have hflags : (F.closeFlushes = true ∨ F.writeBuffers = false) ∧ F.headerOnlyFlushPoisons = false := by
    simp only [List.mem_cons, List.mem_nil_iff, or_false] at hFm
    rcases hFm with rfl | rfl | rfl <;> decide
  refine ⟨(C17_closed_complete F hflags.1 pre cl suf hpre hcl (Or.inl hflags.2)).1, ?_⟩
  clear hpre
  induction pre with
  | nil => rfl
  | cons op pre ih => cases op <;> simp [writesIn, ih]

/-- … instantiated: binary stream (plain or compressed), JSON lines, CSV, line, text and SQLite writers — every
    history, no side condition. (The flags are the extracted ones; if `close` stops flushing in /repo this breaks.) -/
theorem C17_closed_complete_adapters {R : Type} :
    ∀ F ∈ [streamFlags, plainFlags, sqliteFlags], ∀ (pre : List (Op R)) (cl : Op R) (suf : List (Op R)),
      (∀ op ∈ pre, isClosing op = false) → isClosing cl = true →
      (run F Life.init (pre ++ cl :: suf)).disk = (writesIn pre).map Stored.full ∧
      (run F Life.init (pre ++ cl :: suf)).buffer = [] := by
  intro F hFm pre cl suf hpre hcl
  have hflags : (F.closeFlushes = true ∨ F.writeBuffers = false) ∧ F.headerOnlyFlushPoisons = false := by
    simp only [List.mem_cons, List.mem_nil_iff, or_false] at hFm
    rcases hFm with rfl | rfl | rfl <;> decide
  obtain ⟨h1, h2, _⟩ := C17_closed_complete F hflags.1 pre cl suf hpre hcl (Or.inl hflags.2)
  exact ⟨h1, h2⟩

/-- Avro at full strength: whatever the history — also one that flushes before its first write — after a closing
    call the container holds exactly the records written before it, once each, in order, and nothing stays buffered.
    (Holds since the two `fix:` commits: `close` flushes the pending block — `Gen.avroCloseFlushes` — and `flush`
    before the first record no longer creates a placeholder container — `Gen.avroFlushCreatesWriter = false`; on the
    pinned revision both `[write, close]` and `[flush, write, write, close]` were counterexamples.) -/
theorem C17_closed_complete_avro {R : Type} (pre : List (Op R)) (cl : Op R) (suf : List (Op R))
    (hpre : ∀ op ∈ pre, isClosing op = false) (hcl : isClosing cl = true) :
    (run avroFlags Life.init (pre ++ cl :: suf)).disk = (writesIn pre).map Stored.full ∧
    (run avroFlags Life.init (pre ++ cl :: suf)).buffer = [] := by
  obtain ⟨h1, h2, _⟩ := C17_closed_complete avroFlags (by decide) pre cl suf hpre hcl (Or.inl (by decide))
  exact ⟨h1, h2⟩

/-- Empty outputs are valid: JSON, Avro and SQLite writers opened and closed without records — by `close`, by leaving
    a with-block, or by `flush` then `close` — leave an output their reader accepts, holding no record. -/
theorem C17_empty_valid :
    ∀ F ∈ [plainFlags, avroFlags, sqliteFlags], ∀ h ∈ [[Op.close], [Op.exit], [Op.flush, Op.close]],
      (run F (Life.init : Life Unit) h).valid F = true ∧ (run F (Life.init : Life Unit) h).disk = [] ∧
      (run F (Life.init : Life Unit) h).buffer = [] ∧ (run F (Life.init : Life Unit) h).isOpen = false := by
  decide

/-- The same for the binary stream writer, at full strength. -/
def C17_empty_valid_stream_statement : Prop :=
  ∀ h ∈ [[Op.close], [Op.exit], [Op.flush, Op.close]],
    (run streamFlags (Life.init : Life Unit) h).valid streamFlags = true

/-- False of model and code (known finding, pinned by the repo's own test `test_recordstream_header`): a stream writer
    closed without flush and without records never writes the header; the file is empty (or a bare gzip member) and
    `RecordReader` refuses it. -/
theorem C17_empty_valid_stream_counterexample : ¬ C17_empty_valid_stream_statement := by
  intro h
  have := h [Op.close] (by simp)
  revert this
  decide

/-- What holds for the stream writer: `[exit]` and `[flush, close]` leave a valid empty stream, and more generally the
    output is valid at the end of every history in which a write, a flush or a with-exit reached the open writer. -/
theorem C17_empty_valid_stream_partial {R : Type} :
    (∀ h ∈ [[Op.exit], [Op.flush, Op.close]],
      (run streamFlags (Life.init : Life Unit) h).valid streamFlags = true ∧
      (run streamFlags (Life.init : Life Unit) h).disk = []) ∧
    (∀ (pre : List (Op R)) (op : Op R) (suf : List (Op R)), (∀ o ∈ pre, isClosing o = false) → op ≠ Op.close →
      (run streamFlags Life.init (pre ++ op :: suf)).valid streamFlags = true) := by
  refine ⟨by decide, ?_⟩
  intro pre op suf hpre hop
  have h1 := healthy_run streamFlags pre Life.init [] (healthy_init _) hpre (Or.inl (by decide))
  have ho := h1.isOpen
  have hh : (step streamFlags (run streamFlags Life.init pre) op).1.headerOnDisk = true := by
    have hw : streamFlags.writeEmitsHeader = true := by decide
    have hf : streamFlags.flushEmitsHeader = true := by decide
    have hp : streamFlags.headerOnlyFlushPoisons = false := by decide
    have hb : streamFlags.writeBuffers = false := by decide
    cases op with
    | close => exact absurd rfl hop
    | write r => simp [step, doWrite, ho, h1.clean, hw, hb]
    | flush => simp [step, doFlush, ho, hf, hp, Life.drain]
    | bad c => simp [step, doBad, ho, hw]
    | exit =>
      rw [exit_open _ _ ho]
      have : (doFlush streamFlags (run streamFlags Life.init pre)).1.headerOnDisk = true := by
        simp [doFlush, ho, hf, hp, Life.drain]
      exact header_mono streamFlags _ .close this
  rw [run_append, run_cons]
  simp only [Life.valid, Bool.or_eq_true]
  exact Or.inl (header_mono_run streamFlags suf _ hh)

/-- Split: every part holds at most `limit` records — for every history of calls on the split writer, every
    `limit ≥ 1`, every adapter. -/
theorem C17_split_bounded {R : Type} (F : Flags) (limit : Nat) (hl : 1 ≤ limit) (ops : List (Op R)) :
    ∀ p ∈ (splitRun F (Split.init limit) ops).parts, (p.2.disk ++ p.2.buffer).length ≤ limit := by
  have hinit : SplitBounded (Split.init limit : Split R) :=
    ⟨(by intro p hp; cases hp), (by
      intro p hp
      simp only [Split.init, Option.some.injEq] at hp
      subst hp
      exact ⟨(by simp [stored, Life.init]), (by simp only [Split.init]; omega)⟩)⟩
  obtain ⟨⟨hd, hc⟩, hlim⟩ := splitBounded_run F ops _ hinit
  intro p hp
  simp only [Split.parts, List.mem_append] at hp
  have hlim' : (splitRun F (Split.init limit) ops).limit = limit := hlim
  rcases hp with hp | hp
  · have := hd p hp; rw [hlim'] at this; exact this
  · cases hcur : (splitRun F (Split.init limit) ops).cur with
    | none => rw [hcur] at hp; cases hp
    | some q =>
      rw [hcur] at hp
      simp only [List.mem_singleton] at hp
      subst hp
      have := hc p hcur
      rw [hlim'] at this
      simp only [stored] at this
      omega

/-- Split: part names are pairwise distinct — the `k`-th part is named with index `k`, and the index can be read back
    from the name for every suffix length (`rjust` pads, never truncates), every base name. -/
theorem C17_split_names_distinct {R : Type} (F : Flags) (limit suffixLen : Nat) (base : Name) (ops : List (Op R)) :
    let ps := (splitRun F (Split.init limit) ops).parts
    ∀ i j (hi : i < ps.length) (hj : j < ps.length),
      partName base suffixLen (ps[i]).1 = partName base suffixLen (ps[j]).1 → i = j := by
  intro ps i j hi hj h
  have hidx : ps.map (·.1) = List.range ps.length :=
    split_indices_run F ops (Split.init limit) (by simp [Split.init, Split.parts]) (by simp [Split.init, Split.parts])
  have hget : ∀ k (hk : k < ps.length), (ps[k]).1 = k := by
    intro k hk
    have h1 : (ps.map (·.1))[k]'(by simpa using hk) = (ps[k]).1 := by simp
    rw [← h1]
    simp [hidx]
  have := partName_injective base suffixLen _ _ h
  rw [hget i hi, hget j hj] at this
  exact this

/-- Split: the record-wise concatenation of the parts, in order, is exactly the sequence written — for every number of
    records, every limit, closed by `close` or by leaving a with-block (every adapter whose `close` flushes). -/
theorem C17_split_concat {R : Type} (F : Flags) (hF : F.closeFlushes = true ∨ F.writeBuffers = false)
    (limit : Nat) (rs : List R) (cl : Op R) (hcl : isClosing cl = true) :
    (splitRun F (Split.init limit) (rs.map Op.write ++ [cl])).cur = none ∧
    (splitRun F (Split.init limit) (rs.map Op.write ++ [cl])).parts.flatMap (fun p => p.2.disk) = rs.map Stored.full := by
  have hinit : SplitHealthy F (Split.init limit : Split R) [] :=
    ⟨[], [], rfl, rfl, healthy_init F⟩
  obtain ⟨h1, _⟩ := splitHealthy_writes F hF rs _ _ hinit rfl
  obtain ⟨hc, hd⟩ := splitHealthy_closing F _ _ cl h1 hcl hF
  have hrun : splitRun F (Split.init limit) (rs.map Op.write ++ [cl]) =
      (splitStep F (splitRun F (Split.init limit) (rs.map Op.write)) cl).1 := by
    simp [splitRun, List.foldl_append]
  rw [hrun]
  refine ⟨hc, ?_⟩
  simp only [Split.parts, hc, List.append_nil]
  simpa using hd

/-- Split, raw bytes (at the level of frames; that frames are self-delimiting is C01/C02's subject): the concatenation
    of the stream parts — each starting with its own header and re-emitting the descriptors it uses — is read back
    as the concatenation of their records, whatever descriptors the parts share. -/
theorem C17_split_raw_concat {D R : Type} [DecidableEq D] (part : List (D × R)) (parts : List (List (D × R))) :
    readStream ((part :: parts).flatMap emitPart) = some (part :: parts).flatten := by
  simp only [List.flatMap_cons, emitPart, List.cons_append, readStream, List.flatten_cons]
  exact read_emitRecords _ _ (read_parts parts) part [] [] (by intro d hd; simp at hd)

/-- "Each part is readable on its own" at full strength for stream parts: after N writes and `close()` every part
    file is a valid stream. -/
def C17_split_parts_readable_statement : Prop :=
  ∀ (limit : Nat) (rs : List Unit), 1 ≤ limit →
    ∀ p ∈ (splitRun streamFlags (Split.init limit) (rs.map Op.write ++ [Op.close])).parts, p.2.valid streamFlags = true

/-- False of model and code: the split writer opens the next part eagerly, so when N is a multiple of the limit (or 0)
    the trailing part is closed by `close()` without a flush — the stream finding above: an empty file. -/
theorem C17_split_parts_readable_counterexample : ¬ C17_split_parts_readable_statement := by
  intro h
  have := h 1 [()] (Nat.le_refl 1) (1, (doClose streamFlags Life.init).1) (by decide)
  revert this
  decide

/-- What holds: leaving a with-block (`exit` = flush + close) instead of a bare `close()` makes every part a valid
    stream, for every N and every limit. -/
theorem C17_split_parts_readable_partial {R : Type} (limit : Nat) (rs : List R) :
    ∀ p ∈ (splitRun streamFlags (Split.init limit) (rs.map Op.write ++ [Op.exit])).parts,
      p.2.valid streamFlags = true := by
  have hF : streamFlags.closeFlushes = true ∨ streamFlags.writeBuffers = false := Or.inl (by decide)
  have hfe : streamFlags.flushEmitsHeader = true := by decide
  have hp : streamFlags.headerOnlyFlushPoisons = false := by decide
  -- a part closed by flush + close has its header
  have hclosed : ∀ w : Life R, w.isOpen = true →
      (doClose streamFlags (doFlush streamFlags w).1).1.headerOnDisk = true := by
    intro w ho
    have : (doFlush streamFlags w).1.headerOnDisk = true := by simp [doFlush, ho, hfe, hp, Life.drain]
    exact header_mono streamFlags _ .close this
  -- invariant over the writes: healthy, and every closed part has its header
  have hw : ∀ (rs : List R) (s : Split R) (ws : List R), SplitHealthy streamFlags s ws → s.cur.isSome = true →
      (∀ p ∈ s.done, p.2.headerOnDisk = true) →
      ∃ ws', SplitHealthy streamFlags (splitRun streamFlags s (rs.map Op.write)) ws' ∧
        (splitRun streamFlags s (rs.map Op.write)).cur.isSome = true ∧
        (∀ p ∈ (splitRun streamFlags s (rs.map Op.write)).done, p.2.headerOnDisk = true) := by
    intro rs
    induction rs with
    | nil => intro s ws h hc hv; exact ⟨ws, h, hc, hv⟩
    | cons r rs ih =>
      intro s ws h hc hv
      obtain ⟨h1, hc1⟩ := splitHealthy_write streamFlags s ws r h hc hF
      have hv1 : ∀ p ∈ (splitStep streamFlags s (.write r)).1.done, p.2.headerOnDisk = true := by
        obtain ⟨wsDone, wsCur, _, _, hcur⟩ := h
        cases hcur' : s.cur with
        | none => rw [hcur'] at hc; cases hc
        | some q =>
          obtain ⟨i, w⟩ := q
          rw [hcur'] at hcur
          simp only at hcur
          obtain ⟨hh1, _, hok⟩ := healthy_write streamFlags w wsCur r hcur
          simp only [splitStep, hcur']
          generalize doWrite streamFlags w r = res at hh1 hok
          obtain ⟨w1, o⟩ := res
          simp only at hok hh1
          subst hok
          simp only [flag_split_test, Bool.and_true]
          split
          · intro p hp
            rcases List.mem_append.mp hp with hp | hp
            · exact hv p hp
            · simp only [List.mem_singleton] at hp
              subst hp
              exact hclosed w1 hh1.isOpen
          · exact hv
      exact ih _ _ h1 hc1 hv1
  obtain ⟨ws', h1, hc1, hv1⟩ := hw rs (Split.init limit) [] ⟨[], [], rfl, rfl, healthy_init _⟩ rfl
    (by intro p hp; cases hp)
  have hrun : splitRun streamFlags (Split.init limit) (rs.map Op.write ++ [Op.exit]) =
      (splitStep streamFlags (splitRun streamFlags (Split.init limit) (rs.map Op.write)) Op.exit).1 := by
    simp [splitRun, List.foldl_append]
  rw [hrun]
  obtain ⟨wsDone, wsCur, _, _, hcur⟩ := h1
  cases hcur' : (splitRun streamFlags (Split.init limit) (rs.map Op.write)).cur with
  | none => rw [hcur'] at hc1; cases hc1
  | some q =>
    obtain ⟨i, w⟩ := q
    rw [hcur'] at hcur
    simp only at hcur
    intro p hp
    simp only [splitStep, hcur', Split.parts, List.append_nil] at hp
    simp only [Life.valid, Bool.or_eq_true]
    left
    rcases List.mem_append.mp hp with hp | hp
    · exact hv1 p hp
    · simp only [List.mem_singleton] at hp
      subst hp
      exact hclosed w hcur.isOpen

/-- Template archiving. Start from any directory whose file names are distinct; write any sequence of records, each
    with the path its template formats to and the rotation stamp the clock gives at that moment. Then the run never
    fails to find a free rotation name and at the end: the contents of the files that existed before are all still
    there, unchanged and in the same directory order (renamed, never overwritten or appended to); the files the
    writer created hold, in creation order, exactly the records written, once each, each in a file created for the
    path its template names; file names stay distinct. -/
theorem C17_template {R : Type} (fs0 : FS R) (hnd : (names fs0).Nodup) (hpre : ∀ f ∈ fs0, f.origin = none)
    (writes : List (Name × Name × R)) :
    ∃ s', tmplRun { currentPath := none, fs := fs0 } writes = some s' ∧
      preOf (tagged s'.fs) = fs0.map (·.content) ∧
      recsOf (tagged s'.fs) = writes.map (fun w => (w.1, w.2.2)) ∧
      (names s'.fs).Nodup := by
  have hp0 : preOf (tagged fs0) = fs0.map (·.content) := by
    clear hnd
    induction fs0 with
    | nil => rfl
    | cons f fs ih =>
      have hf := hpre f List.mem_cons_self
      have := ih (fun g hg => hpre g (List.mem_cons_of_mem _ hg))
      simp only [preOf, tagged, List.map_cons, List.filter_cons, hf, Option.isNone_none, if_true] at this ⊢
      rw [this]
  have hr0 : recsOf (tagged fs0) = [] := by
    clear hnd hp0
    induction fs0 with
    | nil => rfl
    | cons f fs ih =>
      have hf := hpre f List.mem_cons_self
      have := ih (fun g hg => hpre g (List.mem_cons_of_mem _ hg))
      simp only [recsOf, tagged, List.map_cons, List.flatMap_cons, hf, List.nil_append] at this ⊢
      exact this
  have hinv : TmplInv ({ currentPath := none, fs := fs0 } : Tmpl R) (fs0.map (·.content)) [] :=
    ⟨hnd, hp0, hr0, (by intro p hp; cases hp)⟩
  obtain ⟨s', hrun, hinv'⟩ := tmplRun_inv writes _ _ _ hinv
  exact ⟨s', hrun, hinv'.pre_kept, by simpa using hinv'.recs, hinv'.nodup⟩

/-- "Puts each record in the file its template names", with the name spelled out: the body of
    `PathTemplateWriter.write` is the frozen one (`ts = record._generated or now`, the template formatted with the record
    and that `ts`, nothing else), so for every template `fmt`, every sequence of records and clock readings, the files
    the writer created hold exactly the records written, each under `fmt record ts`; and for a record that carries a
    `_generated` that name does not depend on the clock (nor on any process setting: none is read). -/
theorem C17_template_names_come_from_the_record {R T : Type} (fmt : R → T → Name) (gen : R → Option T)
    (fs0 : FS R) (hnd : (names fs0).Nodup) (hpre : ∀ f ∈ fs0, f.origin = none) (ws : List (R × T × Name)) :
    Gen.templateWriteBody = templateWriteFrozen ∧
    (∃ s', tmplRunRecords fmt gen { currentPath := none, fs := fs0 } ws = some s' ∧
      preOf (tagged s'.fs) = fs0.map (·.content) ∧
      recsOf (tagged s'.fs) = ws.map (fun w => (fmt w.1 (tmplTs (gen w.1) w.2.1), w.1)) ∧
      (names s'.fs).Nodup) ∧
    (∀ (r : R) (g now now' : T), gen r = some g →
      fmt r (tmplTs (gen r) now) = fmt r g ∧ fmt r (tmplTs (gen r) now) = fmt r (tmplTs (gen r) now')) := by
  refine ⟨template_write_is_frozen, ?_, ?_⟩
  · obtain ⟨s', h1, h2, h3, h4⟩ := C17_template fs0 hnd hpre
      (ws.map fun w => (fmt w.1 (tmplTs (gen w.1) w.2.1), w.2.2, w.1))
    refine ⟨s', h1, h2, ?_, h4⟩
    rw [h3, List.map_map]
    rfl
  · intro r g now now' hg
    simp [tmplTs, hg]

/-- The template writer closed in the middle of its life and used again - any sequence of `write` and `close` calls, any
    directory to start from: the run never fails to find a free rotation name; a `write` is refused only right after a
    `close`, for the path that was current (and then changes nothing); and at the end the contents of the files that
    existed before are all still there unchanged, while the files the writer created hold, in order, exactly the
    records whose `write` returned - a later refusal or reopening never costs a record written before. -/
theorem C17_template_closed_and_used_again {R : Type} (fs0 : FS R) (hnd : (names fs0).Nodup)
    (hpre : ∀ f ∈ fs0, f.origin = none) (ops : List (TOp R)) :
    ∃ s' oks, tmplRunC { t := { currentPath := none, fs := fs0 }, closed := false } ops = some (s', oks) ∧
      oks.length = ops.length ∧
      preOf (tagged s'.t.fs) = fs0.map (·.content) ∧
      recsOf (tagged s'.t.fs) = acceptedWrites ops oks ∧
      (names s'.t.fs).Nodup := by
  obtain ⟨s0, h0, hp, hr, hn⟩ := C17_template fs0 hnd hpre []
  simp only [tmplRun, Option.some.injEq] at h0
  subst h0
  have hinv : TmplInv ({ currentPath := none, fs := fs0 } : Tmpl R) (fs0.map (·.content)) [] :=
    ⟨hnd, hp, by simpa using hr, (by intro p hp'; cases hp')⟩
  obtain ⟨s', oks, hrun, hl, hinv'⟩ := tmplRunC_inv ops { t := { currentPath := none, fs := fs0 }, closed := false } _ _ hinv
  exact ⟨s', oks, hrun, hl, hinv'.pre_kept, by simpa using hinv'.recs, hinv'.nodup⟩

/-- The rotation target is free: after `rotate_existing_file` nothing is named like the path about to be opened, so
    opening it for writing truncates nothing. -/
theorem C17_template_target_free {R : Type} (fs : FS R) (hnd : (names fs).Nodup) (path stamp : Name) :
    ∃ fs', rotateExisting fs path stamp = some fs' ∧ fs'.has path = false ∧ tagged fs' = tagged fs := by
  obtain ⟨fs', h1, h2, _, h4⟩ := rotate_spec fs path stamp hnd
  exact ⟨fs', h1, h4, h2⟩

/-- Why the `-<n>` sequence is needed (the behaviour of the pinned revision, DESIGN finding #15, repaired in /repo):
    without it, a pre-existing `A` and the path sequence A, B, A inside one second loses the pre-existing content — the
    second rotation renames onto the first rotated copy. -/
theorem C17_template_rotation_overwrites_without_sequence :
    let fs0 : FS Nat := [{ name := "A.records.gz".toList, origin := none, content := [7] }]
    let stamp := "20240101T000000".toList
    (rotateExistingWith false fs0 "A.records.gz".toList stamp).bind (fun fs1 =>
      rotateExistingWith false (fs1 ++ [{ name := "A.records.gz".toList, origin := some "A.records.gz".toList, content := [1] }])
        "A.records.gz".toList stamp) = some [{ name := "A.20240101T000000.records.gz".toList,
                                                origin := some "A.records.gz".toList, content := [1] }] := by
  decide

-- Non-vacuity: concrete histories, splits and rotations.
namespace C17_nonvacuous
example : tmplTs (some 5) 9 = 5 ∧ tmplTs (none : Option Nat) 9 = 9 := by decide
example : (tmplRunC ({ t := { currentPath := none, fs := [] }, closed := false } : TmplC Nat)
    [.write "A".toList "s".toList 1, .close, .write "A".toList "s".toList 2, .write "B".toList "s".toList 3]).map (·.2) =
    some [true, true, false, true] := by decide
example : (run avroFlags (Life.init : Life Nat) [.write 1, .write 2, .close, .close]).disk = [.full 1, .full 2] := by decide
example : (run avroFlags (Life.init : Life Nat) [.write 1, .write 2]).buffer = [.full 1, .full 2] := by decide
example : outcomes avroFlags (Life.init : Life Nat) [.write 1, .exit, .exit, .write 2] = [.ok, .ok, .ok, .raised] := by
  decide
example : ((splitRun streamFlags (Split.init 2 : Split Nat) ([1, 2, 3, 4, 5].map Op.write ++ [Op.close])).parts.map
    (fun p => (p.1, p.2.disk))) = [(0, [.full 1, .full 2]), (1, [.full 3, .full 4]), (2, [.full 5])] := by decide
example : partName "out.records.gz".toList 2 7 = "out.records.07.gz".toList := by decide
example : partName "out".toList 2 123 = "out.123".toList := by decide
example : rotCandidate "A.records.gz".toList "20240101T000000".toList 2 = "A.20240101T000000-2.records.gz".toList := by
  decide
example : (tmplRun ({ currentPath := none, fs := [{ name := "A".toList, origin := none, content := [7] }] } : Tmpl Nat)
    [("A".toList, "S".toList, 1), ("B".toList, "S".toList, 2), ("A".toList, "S".toList, 3)]).map
      (fun s => s.fs.map (fun f => (String.ofList f.name, f.content))) =
    some [("A.S.", [7]), ("A.S-1.", [1]), ("B", [2]), ("A", [3])] := by decide
end C17_nonvacuous

-- non-vacuity for refused writes: two good records around a refused one, batch still pending, then close
example : (run sqliteFlags (Life.init : Life Nat) [.write 0, .bad false, .write 2, .close]).disk = [.full 0, .full 2] := by
  decide
example : (outcomes sqliteFlags (Life.init : Life Nat) [.write 0, .bad true, .close, .bad false]) =
    [.ok, .raised, .ok, .raised] := by decide



/-- THE COMPARISON-IGNORE CONFIGURATION CONCERNS == AND hash() ONLY: whatever configuration is in force
    (FLOW_RECORD_IGNORE, `set_ignored_fields_for_comparison`, a `with ignore_fields_for_comparison(...)` block around a
    de-duplicating producer), every writer stores complete records: the packer asks `Record._pack` to leave out nothing.
    Premises: the regenerated source facts (`Gen.recordPackReadsGlobalIgnore`, `recordPackExcludedDefault`,
    `packerPassesExcluded`). -/
theorem C17_ignore_configuration_never_reaches_the_writer (globalIg : List (List Nat))
    (names : List (List Nat)) {α : Type} (vals : List α) (h : names.length = vals.length) :
    FlowRecord.Equality.packerExcluded globalIg = [] ∧
    FlowRecord.Equality.keep (FlowRecord.Equality.packerExcluded globalIg) names vals = vals := by
  refine ⟨FlowRecord.Equality.packerExcluded_nil globalIg, ?_⟩
  rw [FlowRecord.Equality.packerExcluded_nil globalIg]
  exact FlowRecord.Equality.keep_nil names vals h
