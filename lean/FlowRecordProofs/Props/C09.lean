import FlowRecord.Model.Selector.Interp
import FlowRecord.Model.Selector.Ref
import FlowRecordProofs.Lemmas.SelectorTrace
/-!
C09 — the interpreted selector is a sandbox.

The model is `interp` (Model/Selector/Interp.lean): `RecordContextMatcher._eval` transcribed branch by branch and
instrumented with an effect trace (`call callee`, `getattr obj name`, `modattr obj part` for the resolution of a
whitelisted constructor path, `fallback id` for a Name that is not in the namespace). Every theorem below is for
**every** `Prim` — in particular for an adversarial one in which any attribute of any value is a foreign callable
and every primitive returns whatever it likes — every expression (no `Supported` premise), every fuel and state.
-/
open FlowRecord FlowRecord.Selector

/-- The callables a selector may invoke: those bound in the namespace when `matches` constructs it
    (`str repr fields any all` + `FUNCTION_WHITELIST`, read from the extracted key lists) and the field-type
    constructors reached through a path of the extracted `WHITELIST`. -/
def C09_Allowed (P : Prim) (v : PVal) : Prop :=
  (∃ n, allowedCalls.contains n = true ∧ v = .builtin n) ∨
  (∃ w, Gen.WHITELIST.contains w = true ∧ rResolve P (.ftype "") (splitDot w) = .ok v)

/-- What the engine is allowed to do besides computing values. -/
def C09_GoodEvent (P : Prim) : Event → Prop
  | .call c => C09_Allowed P c
  | .getattr _ a => hasPrefix "__" a = false
  | .modattr _ part => hasPrefix "__" part = false
  | .fallback id => hasPrefix "__" id = false

/-- Inst: the attribute branch refuses exactly the prefix `__`, no component of a whitelisted constructor path
    is a double-underscore name, and the Name branch refuses a `__` name before the whitelist-module fallback. -/
theorem C09_tables :
    Gen.attrRefusedPrefix = "__" ∧ (∀ w ∈ Gen.WHITELIST, ∀ part ∈ splitDot w, hasPrefix "__" part = false) ∧
    flagsOk = true ∧ Gen.evalNodeKinds.contains "Call" = true ∧ Gen.evalNodeKinds.contains "Attribute" = true ∧
    Gen.nameFallbackRefusesDunder = true ∧ Gen.nameRefusedPrefix = "__" := by
  decide

/-- the trace invariant packaged for the generic preservation lemmas -/
def C09_traceInvariant (P : Prim) : Invariant P where
  inv s := ∀ ev ∈ s.trace, C09_GoodEvent P ev
  good := C09_GoodEvent P
  ns_irrel := fun _ _ h => h
  log_ok := by
    intro s ev h hev e he
    simp only [List.mem_append, List.mem_singleton] at he
    rcases he with he | he
    · exact h e he
    · exact he ▸ hev
  call_builtin := fun n hn => Or.inl ⟨n, hn, rfl⟩
  call_ctor := fun w hw v hv => Or.inr ⟨w, hw, hv⟩
  getattr_ok := fun _ a ha => by
    have h := C09_tables.1
    rw [h] at ha
    exact ha
  fallback_ok := fun id h => by
    have h1 := C09_tables.2.2.2.2.2.1
    have h2 := C09_tables.2.2.2.2.2.2
    have : hasPrefix "__" id = false := by simpa [nameRefused, h1, h2] using h
    exact this
  modattr_ok := fun w hw part hp _ => C09_tables.2.1 w (by simpa using hw) part hp

/-- Safety invariant over the whole effect trace, by induction on the evaluation: whatever the expression and
    whatever the primitives do, every callable the engine invokes is an allowed one, and every attribute it reads
    has a name that does not start with `__`. -/
theorem C09_calls_allowed (P : Prim) (fuel : Nat) (e : Expr) (st : St)
    (h0 : ∀ ev ∈ st.trace, C09_GoodEvent P ev) :
    ∀ ev ∈ (interp P fuel e st).1.trace, C09_GoodEvent P ev :=
  (pres_interp (C09_traceInvariant P) fuel e st h0).1

/-- The same for a whole `match`: the trace starts empty. -/
theorem C09_match_calls_allowed (P : Prim) (fuel : Nat) (rec : PVal) (e : Expr) :
    ∀ c, Event.call c ∈ (interpMatch P fuel rec e).1.trace → C09_Allowed P c := by
  intro c hc
  unfold interpMatch at hc
  split at hc
  · exact C09_calls_allowed P fuel e _ (by simp) _ hc
  · simp at hc

/-- No double-underscore attribute is ever read: not by an `Attribute` node, not while resolving a constructor, and
    not by a Name that falls back to the whitelist module object (`getattr(dynamic_fieldtype, id)`). -/
theorem C09_no_dunder (P : Prim) (fuel : Nat) (rec : PVal) (e : Expr) :
    (∀ obj a, Event.getattr obj a ∈ (interpMatch P fuel rec e).1.trace → hasPrefix "__" a = false) ∧
    (∀ obj a, Event.modattr obj a ∈ (interpMatch P fuel rec e).1.trace → hasPrefix "__" a = false) ∧
    (∀ id, Event.fallback id ∈ (interpMatch P fuel rec e).1.trace → hasPrefix "__" id = false) := by
  have key : ∀ ev ∈ (interpMatch P fuel rec e).1.trace, C09_GoodEvent P ev := by
    intro ev hev
    unfold interpMatch at hev
    split at hev
    · exact C09_calls_allowed P fuel e _ (by simp) _ hev
    · simp at hev
  exact ⟨fun obj a h => key _ h, fun obj a h => key _ h, fun id h => key _ h⟩

/-- A double-underscore attribute access is refused before its object expression is evaluated: the state is
    untouched (no event at all), for every sub-expression `v`. -/
theorem C09_dunder_refused_first (P : Prim) (fuel : Nat) (v : Expr) (a : String) (st : St)
    (ha : hasPrefix "__" a = true) :
    interp P (fuel + 1) (.attr v a) st = (st, .error .invalidOp) := by
  have h1 := C09_tables.1
  have h5 : "Attribute" ∈ Gen.evalNodeKinds := by simpa using C09_tables.2.2.2.2.1
  simp [interp, evalStep, Expr.kind, h1, h5, ha, M.throw]

/-- The call target as the `Call` branch sees it: the dotted path when the target is a Name-rooted attribute chain
    that is an allowed name or a whitelisted constructor path. -/
def C09_targetAccepted (func : Expr) : Bool :=
  isNameOrAttr func &&
  match resolveAttrPath func with
  | none => false
  | some fname => allowedCalls.contains fname || Gen.WHITELIST.contains fname

/-- Refusal comes first: a call whose target is not accepted — a call result, a constant, a subscript, a lambda,
    a parenthesised expression, a method of a value, a generator variable, an unknown name — is refused with
    `InvalidOperation` before the target or any argument is evaluated: the state is untouched, no event logged. -/
theorem C09_refusal_first (P : Prim) (fuel : Nat) (func : Expr) (args : List Expr) (kwargs : List (String × Expr))
    (st : St) (h : C09_targetAccepted func = false) :
    interp P (fuel + 1) (.call func args kwargs) st = (st, .error .invalidOp) := by
  have h4 := C09_tables.2.2.2.1
  simp only [interp, evalStep, Expr.kind, h4, Bool.not_true, Bool.false_eq_true, ↓reduceIte, evalCall]
  unfold C09_targetAccepted at h
  cases hna : isNameOrAttr func with
  | false => simp [M.throw]
  | true =>
    simp only [hna, Bool.true_and] at h
    cases hp : resolveAttrPath func with
    | none => simp [M.throw]
    | some fname =>
      simp only [hp, Bool.or_eq_false_iff] at h
      have h1 : fname ∉ allowedCalls := by simpa using h.1
      have h2 : fname ∉ Gen.WHITELIST := by simpa using h.2
      simp [h1, h2, M.throw]

/-- Only a Name-rooted chain resolves at all (`resolve_attr_path` returns None otherwise): targets hanging off a
    call result, a constant, a subscript, an operator expression are never accepted. -/
theorem C09_nonname_root_refused (func : Expr) (h : ∀ id, (attrChain func).2 ≠ .name id) :
    C09_targetAccepted func = false := by
  unfold C09_targetAccepted resolveAttrPath
  cases hr : (attrChain func).2 <;> simp_all

/-- Generator variables cannot make anything callable: the accepted targets are decided on the expression and the
    static tables alone, never on the namespace — acceptance does not depend on the state. (The pinned tree
    consulted the live namespace: findings #7c and #16.) -/
theorem C09_acceptance_static (P : Prim) (fuel : Nat) (func : Expr) (args : List Expr)
    (kwargs : List (String × Expr)) (st st' : St) (h : C09_targetAccepted func = false) :
    (interp P (fuel + 1) (.call func args kwargs) st).2 = (interp P (fuel + 1) (.call func args kwargs) st').2 := by
  rw [C09_refusal_first P fuel func args kwargs st h, C09_refusal_first P fuel func args kwargs st' h]

/-- A bare double-underscore *Name* that is not bound in the namespace (`__class__`, `__dict__`, `__import__`, …)
    is refused before the whitelist-module fallback: `InvalidOperation`, state untouched, no `getattr` on
    `dynamic_fieldtype` (finding C09-dunder-name-fallback, fixed by 96248cf: the pinned tree evaluated `__class__`
    to the module's class). -/
theorem C09_dunder_name_refused_first (P : Prim) (fuel : Nat) (id : String) (st : St)
    (hd : hasPrefix "__" id = true) (h : inData st id = false) :
    interp P (fuel + 1) (.name id) st = (st, .error .invalidOp) := by
  have hk : "Name" ∈ Gen.evalNodeKinds := by decide
  have h1 := C09_tables.2.2.2.2.2.1
  have h2 := C09_tables.2.2.2.2.2.2
  simp [interp, evalStep, Expr.kind, hk, h, nameRefused, h1, h2, hd]

/-- Every other unbound Name reaches the fallback with exactly one `fallback` event and the lookup's own result
    (an unknown name is the lookup's AttributeError); nothing reached this way can be called
    (`C09_calls_allowed`). -/
theorem C09_name_fallback (P : Prim) (fuel : Nat) (id : String) (st : St)
    (hd : hasPrefix "__" id = false) (h : inData st id = false) :
    interp P (fuel + 1) (.name id) st = ({ st with trace := st.trace ++ [.fallback id] }, P.dynft id) := by
  have hk : "Name" ∈ Gen.evalNodeKinds := by decide
  have h2 := C09_tables.2.2.2.2.2.2
  simp [interp, evalStep, Expr.kind, hk, h, nameRefused, h2, hd, M.bind, M.log, M.lift]

/-- the record invariant packaged for the generic preservation lemmas -/
def C09_recordInvariant (P : Prim) (r0 : PVal) : Invariant P where
  inv s := s.record = r0
  good := fun _ => True
  ns_irrel := fun _ _ h => h
  log_ok := fun _ _ h _ => h
  call_builtin := fun _ _ => trivial
  call_ctor := fun _ _ _ _ => trivial
  getattr_ok := fun _ _ _ => trivial
  fallback_ok := fun _ _ => trivial
  modattr_ok := fun _ _ _ _ _ => trivial

/-- Evaluation never modifies the record: the record component of the state after evaluation is the one before
    (the only writes go to the matcher's own namespace and trace). -/
theorem C09_record_unchanged (P : Prim) (fuel : Nat) (e : Expr) (st : St) :
    (interp P fuel e st).1.record = st.record :=
  (pres_interp (C09_recordInvariant P st.record) fuel e st rfl).1

-- Non-vacuity: an adversarial Prim (every attribute is a foreign callable, every call "succeeds"), the four escape
-- shapes of the pinned tree are refused, and an allowed call does produce a call event.
namespace C09_nonvacuous
def adv : Prim :=
  { truthy := fun _ => true, rich := fun _ _ _ => .ok (.bool true), contains := fun _ _ => .ok true,
    is_ := fun _ _ => true, arith := fun _ _ _ => .ok (.foreign 7), getattr := fun _ _ => some (.foreign 666),
    iter := fun v => .ok [v, .foreign 5], call := fun _ _ _ => .ok (.foreign 9), dynft := fun _ => .ok (.foreign 8),
    modattr := fun _ _ => .ok (.foreign 4), tmValues := fun _ _ => [.foreign 3] }
def st0 : St := { ns := [], trace := [], record := .recv "t" [("s", "string", .str "x")] }
def rs : Expr := .attr (.name "r") "s"
/-- (a) `lower(r.s).upper()` -/
example : C09_targetAccepted (.attr (.call (.name "lower") [rs] []) "upper") = false := by decide
/-- (b) `'abc'.upper()` -/
example : C09_targetAccepted (.attr (.const (.str "abc")) "upper") = false := by decide
/-- (c) `f()` for a generator variable `f` -/
example : C09_targetAccepted (.name "f") = false := by decide
/-- (d) `path()` where `path` is also a generator variable: accepted as the *whitelisted constructor*, resolved
    from the static whitelist module, never from the namespace -/
example : C09_targetAccepted (.name "path") = true := by decide
example : C09_targetAccepted (.name "upper") = true := by decide
example : C09_targetAccepted (.attr (.attr (.name "net") "ipv4") "Subnet") = true := by decide
example : C09_targetAccepted (.attr rs "upper") = false := by decide
example : inData st0 "__class__" = false := by decide
/-- an allowed call is really logged (the invariant is not vacuous) -/
example : (interp adv 5 (.call (.name "upper") [rs] []) st0).1.trace.length = 2 := by decide
end C09_nonvacuous
