import FlowRecord.Model.Detect
import FlowRecordProofs.Lemmas.HeaderMagic
/-!
C11 — compression and container format are detected transparently.
Property theorems only. All are about the tables as extracted from the current source (`Gen`);
the codec libraries are the hypothesis `CodecLaws` (exercised against the real codecs by harness/props/C11.py).
-/
open FlowRecord hiding Bytes
open FlowRecord.Detect

/-- The magic table is unambiguous: no magic is a prefix of another, of the stream header or of "Obj". -/
theorem C11_magic_unambiguous :
    (∀ r1 ∈ Gen.openStreamChain, ∀ r2 ∈ Gen.openStreamChain, r1 ≠ r2 → r1.2.2.1.isPrefixOf r2.2.2.1 = false) ∧
    (∀ r ∈ Gen.openStreamChain, r.2.2.1.isPrefixOf streamHeader = false ∧ r.2.2.1.isPrefixOf Gen.AVRO_MAGIC = false
      ∧ r.2.2.1.length = r.2.1 ∧ r.2.1 ≤ Gen.RECORDSTREAM_MAGIC_DEPTH) := by
  decide

/-- Every codec magic is recognised from the leading bytes, for *all* continuations and whatever other
    optional codecs are installed. -/
theorem C11_sniff_magic (avail : String → Bool) (tail : Bytes) :
    ∀ row ∈ Gen.openStreamChain, flagOk avail row.1 = true →
      sniffCodec avail (row.2.2.1 ++ tail) = row.2.2.2 := by
  intro row hrow hflag
  simp only [Gen.openStreamChain, List.mem_cons, List.mem_nil_iff, or_false] at hrow
  rcases hrow with h | h | h | h <;> subst h <;>
    simp_all [sniffCodec, sniffCodecIn, Gen.openStreamChain, Gen.GZIP_MAGIC, Gen.BZ2_MAGIC, Gen.LZ4_MAGIC,
      Gen.ZSTD_MAGIC, flagOk, List.find?]

/-- A plain record stream is never taken for a compressed one and is recognised as a stream;
    the header frame is the one the published format fixes. -/
theorem C11_plain_stream (avail : String → Bool) (tail : Bytes) :
    sniffCodec avail (streamHeader ++ tail) = "none" ∧ sniffContainer avail (streamHeader ++ tail) = "stream" := by
  constructor
  · simp [sniffCodec, sniffCodecIn, Gen.openStreamChain, Gen.GZIP_MAGIC, Gen.BZ2_MAGIC, Gen.LZ4_MAGIC,
      Gen.ZSTD_MAGIC, flagOk, List.find?, streamHeader, Gen.RECORDSTREAM_MAGIC]
  · simp [sniffContainer, sniffContainerIn, Gen.containerChain, Gen.AVRO_MAGIC, flagOk, List.find?, streamHeader,
      Gen.RECORDSTREAM_MAGIC, containsBytes, List.isPrefixOf]

/-- An Avro container is never taken for a compressed stream and is recognised as Avro. -/
theorem C11_plain_avro (avail : String → Bool) (tail : Bytes) (h : avail "HAS_AVRO" = true) :
    sniffCodec avail (Gen.AVRO_MAGIC ++ tail) = "none" ∧ sniffContainer avail (Gen.AVRO_MAGIC ++ tail) = "avro" := by
  constructor
  · simp [sniffCodec, sniffCodecIn, Gen.openStreamChain, Gen.GZIP_MAGIC, Gen.BZ2_MAGIC, Gen.LZ4_MAGIC,
      Gen.ZSTD_MAGIC, flagOk, List.find?, Gen.AVRO_MAGIC]
  · simp [sniffContainer, sniffContainerIn, Gen.containerChain, Gen.AVRO_MAGIC, flagOk, h]

/-- File objects / stdin: for every installed codec and both containers, the compressed bytes are opened as the
    container they hold and decompress to exactly what was written. -/
theorem C11_roundtrip_fileobj (L : CodecLaws) (avail : String → Bool) (tail : Bytes)
    (hav : avail "HAS_AVRO" = true) :
    ∀ row ∈ Gen.openStreamChain, flagOk avail row.1 = true →
      openFileObj L avail (L.compress row.2.2.2 (streamHeader ++ tail)) = .records "stream" (streamHeader ++ tail) ∧
      openFileObj L avail (L.compress row.2.2.2 (Gen.AVRO_MAGIC ++ tail)) = .records "avro" (Gen.AVRO_MAGIC ++ tail) := by
  intro row hrow hflag
  have key : ∀ x, sniffCodec avail (L.compress row.2.2.2 x) = row.2.2.2 := by
    intro x
    obtain ⟨t, ht⟩ := L.magic row hrow x
    rw [ht]; exact C11_sniff_magic avail t row hrow hflag
  constructor
  · simp [openFileObj, key, L.roundtrip, (C11_plain_stream avail tail).2]
  · simp [openFileObj, key, L.roundtrip, (C11_plain_avro avail tail hav).2]

/-- Uncompressed file objects. -/
theorem C11_roundtrip_fileobj_plain (L : CodecLaws) (avail : String → Bool) (tail : Bytes)
    (hav : avail "HAS_AVRO" = true) :
    openFileObj L avail (streamHeader ++ tail) = .records "stream" (streamHeader ++ tail) ∧
    openFileObj L avail (Gen.AVRO_MAGIC ++ tail) = .records "avro" (Gen.AVRO_MAGIC ++ tail) := by
  constructor
  · simp [openFileObj, (C11_plain_stream avail tail).1, (C11_plain_stream avail tail).2, L.none_id_d]
  · simp [openFileObj, (C11_plain_avro avail tail hav).1, (C11_plain_avro avail tail hav).2, L.none_id_d]

/-- The suffix chain: every listed extension selects its codec, whatever precedes it in the name. -/
theorem C11_path_suffix (base : List Char) :
    ∀ row ∈ Gen.openPathChain, ∀ sfx ∈ row.1, pathCodec (base ++ sfx.toList) = row.2 := by
  intro row hrow sfx hs
  simp only [Gen.openPathChain, List.mem_cons, List.mem_nil_iff, or_false] at hrow
  rcases hrow with h | h | h | h <;> subst h <;>
    simp only [List.mem_cons, List.mem_nil_iff, or_false] at hs <;>
    first
    | (subst hs
       simp [pathCodec, pathCodecIn, Gen.openPathChain, endsWith, List.find?, List.reverse_append, List.isPrefixOf])
    | (rcases hs with hs | hs <;> subst hs <;>
       simp [pathCodec, pathCodecIn, Gen.openPathChain, endsWith, List.find?, List.reverse_append, List.isPrefixOf])

/-- Every codec a path can select when writing is one the reader can sniff (cross-table consistency). -/
theorem C11_path_codecs_sniffable :
    ∀ row ∈ Gen.openPathChain, ∃ r ∈ Gen.openStreamChain, r.2.2.2 = row.2 := by
  decide

/-- Paths: what is written under a name reads back under the same name, and — when the plaintext is a record
    stream or Avro container — under a name that does not reveal the codec. -/
theorem C11_roundtrip_path (L : CodecLaws) (avail : String → Bool) (wpath : List Char) (x : Bytes) :
    openPathRead L avail wpath (writePath L wpath x) = some x ∨ pathCodec wpath = "none" := by
  by_cases h : pathCodec wpath = "none"
  · exact Or.inr h
  · left; simp [openPathRead, writePath, h, L.roundtrip]

theorem C11_roundtrip_neutral_name (L : CodecLaws) (avail : String → Bool) (wpath rpath : List Char) (tail : Bytes)
    (hall : ∀ row ∈ Gen.openStreamChain, flagOk avail row.1 = true)
    (hneutral : pathCodec rpath = "none") :
    openPathRead L avail rpath (writePath L wpath (streamHeader ++ tail)) = some (streamHeader ++ tail) := by
  simp only [openPathRead, hneutral, writePath]
  by_cases h : pathCodec wpath = "none"
  · simp [h, L.none_id_c, (C11_plain_stream avail tail).1, L.none_id_d]
  · -- the codec chosen by the writer's suffix is one of the sniffable rows
    have hc : ∃ r ∈ Gen.openStreamChain, r.2.2.2 = pathCodec wpath := by
      unfold pathCodec pathCodecIn at h ⊢
      cases hf : List.find? (fun row => row.1.any (fun sfx => endsWith sfx.toList wpath)) Gen.openPathChain with
      | none => simp [hf] at h
      | some row =>
        have hm := List.mem_of_find?_eq_some hf
        simpa using C11_path_codecs_sniffable row hm
    obtain ⟨r, hr, hrc⟩ := hc
    obtain ⟨t, ht⟩ := L.magic r hr (streamHeader ++ tail)
    have hs : sniffCodec avail (L.compress (pathCodec wpath) (streamHeader ++ tail)) = pathCodec wpath := by
      rw [← hrc, ht]; exact C11_sniff_magic avail t r hr (hall r hr)
    simp [hs, L.roundtrip]

/-- Input that carries none of the magics is refused, never read as records. -/
theorem C11_refuse (L : CodecLaws) (avail : String → Bool) (bs : Bytes)
    (h1 : sniffCodec avail bs = "none")
    (h2 : bs.take 3 ≠ Gen.AVRO_MAGIC)
    (h3 : containsBytes Gen.RECORDSTREAM_MAGIC (bs.take Gen.RECORDSTREAM_MAGIC_DEPTH) = false) :
    openFileObj L avail bs = .adapterNotFound := by
  have : sniffContainer avail bs = "none" := by
    simp only [Gen.RECORDSTREAM_MAGIC_DEPTH] at h3
    simp [sniffContainer, sniffContainerIn, Gen.containerChain, List.find?, flagOk, h2, h3]
  simp [openFileObj, h1, L.none_id_d, this]

/-- Second line of refusal, the reader's own header check (`readheader`): the stream adapter is chosen as soon as the
    magic occurs anywhere within the sniffing depth, but input in which the magic sits EARLIER than in a header frame
    (0 to 5 bytes before it instead of 6, whatever those bytes and whatever follows) is refused with a format error,
    never read as records. -/
theorem C11_refuse_misplaced_magic (junk tail : Bytes) (hj : junk.length < 6)
    (hl : Stream.headerLen ≤ (junk ++ Gen.RECORDSTREAM_MAGIC ++ tail).length) :
    Stream.readHeader (junk ++ Gen.RECORDSTREAM_MAGIC ++ tail) = none :=
  Stream.readHeader_misplaced_magic junk tail hj hl

/-- … and the genuine header frame is accepted, whatever follows. -/
theorem C11_header_accepted (tail : Bytes) :
    Stream.readHeader (streamHeader ++ tail) = some tail := by
  have hl : streamHeader.length = Stream.headerLen := by decide
  unfold Stream.readHeader
  rw [List.take_left' hl, List.drop_left' hl]
  have : Gen.RECORDSTREAM_MAGIC.reverse.isPrefixOf streamHeader.reverse = true := by decide
  simp [this]

/-- Recorded finding: the length hypothesis of `C11_refuse_misplaced_magic` cannot be dropped. An input SHORTER than
    a header frame that ends with the magic — here the 13 magic bytes alone — passes the header check and is read as
    an empty stream (the check is `endswith` on up to 19 bytes). No record is misread. -/
theorem C11_short_input_counterexample : Stream.readHeader Gen.RECORDSTREAM_MAGIC = some [] := by decide

/-- The extension table: names ending in .avro/.json/.jsonl/.csv select their adapter, everything else the
    binary stream adapter (tables as extracted). -/
theorem C11_ext_table :
    Gen.extToAdapter = [(".avro", "avro"), (".json", "jsonfile"), (".jsonl", "jsonfile"), (".csv", "csvfile")] ∧
    Gen.defaultAdapter = "stream" ∧ Gen.openPathSniffsWhenReading = true ∧
    Gen.openPathChain = [([".gz"], "gzip"), ([".bz2"], "bz2"), ([".lz4"], "lz4"), ([".zstd", ".zst"], "zstd")] ∧
    Gen.openStreamWriteModePassThrough = true := by
  decide

-- Non-vacuity: the hypotheses are satisfiable (a toy codec that prepends the magic).
namespace C11_nonvacuous
def magicOf (c : String) : Bytes :=
  match Gen.openStreamChain.find? (fun r => r.2.2.2 == c) with
  | some r => r.2.2.1
  | none => []
def toy : CodecLaws where
  compress c x := magicOf c ++ x
  decompress c bs := some (bs.drop (magicOf c).length)
  none_id_c := by intro x; simp [magicOf, Gen.openStreamChain, List.find?]
  none_id_d := by intro x; simp [magicOf, Gen.openStreamChain, List.find?]
  roundtrip := by intro c x; simp
  magic := by
    intro row hrow x
    simp only [Gen.openStreamChain, List.mem_cons, List.mem_nil_iff, or_false] at hrow
    rcases hrow with h | h | h | h <;> subst h <;> exact ⟨x, by simp [magicOf, Gen.openStreamChain, List.find?]⟩
example : openFileObj toy (fun _ => true) (toy.compress "zstd" (streamHeader ++ [1, 2, 3]))
    = .records "stream" (streamHeader ++ [1, 2, 3]) := by decide
example : openFileObj toy (fun _ => true) [60, 114, 101, 99] = .adapterNotFound := by decide
end C11_nonvacuous
