import FlowRecordProofs.Lemmas.KwCtor
import FlowRecordProofs.Lemmas.Avro
/-!
C19 — Avro export preserves supported values and never corrupts silently.
Property theorems only (helper lemmas: `Lemmas/Avro.lean`).

Hypotheses that stand for runtime components (never axioms): `JsonTextLaws.Inverse` (json.loads inverts json.dumps),
`AvroLaws` (which packed values fastavro writes under a `[t, "null"]` union; a written token decodes in place to the
stored value), `FloatLaws` (single-precision rounding is opaque). All are exercised by harness/props/C19.py.
-/
open FlowRecord FlowRecord.Avro

/-- Schema/descriptor inverse for ALL descriptors over the mapped types — any number of fields, including none:
    the schema is built, and both the schema as written and the schema as fastavro stores it (full name, no
    namespace) map back to exactly the descriptor. With at least one field the embedded `doc` is used; the zero-field
    descriptor's `doc` ends in `]]`, fails the sniff, and the name is rebuilt from namespace/name. -/
theorem C19_schema_roundtrip (J : JsonTextLaws) (hJ : J.Inverse) (d : Desc)
    (hmap : ∀ f ∈ d.fields, Mappable f.1) (hname : NameOk d.name.toList) :
    ∃ s, descriptorToSchema J d = .ok s ∧
      schemaToDescriptor J s = .ok d ∧ schemaToDescriptor J (fastavroNorm s) = .ok d := by
  obtain ⟨fs, hfs, _⟩ := fieldsSchema_ok d.fields hmap
  have hall : fieldsSchema (allFields d) = .ok (fs ++ reservedSchema) := by
    unfold allFields
    rw [fieldsSchema_append, hfs, reserved_schema]
  refine ⟨⟨some (rpartition '/' d.name.toList).1, (rpartition '/' d.name.toList).2, some (dumps J d),
    fs ++ reservedSchema⟩, by simp [descriptorToSchema, hall], ?_, ?_⟩
  · -- the schema as written
    unfold schemaToDescriptor
    simp only [docSniff_dumps]
    cases hf : d.fields with
    | cons f rest => simp [hJ d]
    | nil =>
      rw [hf] at hfs
      simp only [fieldsSchema, Except.ok.injEq] at hfs
      subst hfs
      simp only [List.isEmpty_nil, Bool.not_true, Bool.false_eq_true, if_false, List.nil_append, reserved_fallback]
      have := fallbackName_raw d.name.toList hname
      simp only [fallbackName, Option.getD_some, this, String.ofList_toList]
      cases d; simp_all
  · -- the schema as fastavro stores it
    unfold schemaToDescriptor
    rw [fastavroNorm_doc]
    simp only [docSniff_dumps]
    cases hf : d.fields with
    | cons f rest => simp [hJ d]
    | nil =>
      rw [hf] at hfs
      simp only [fieldsSchema, Except.ok.injEq] at hfs
      subst hfs
      simp only [List.isEmpty_nil, Bool.not_true, Bool.false_eq_true, if_false, fastavroNorm_fields, List.nil_append,
        reserved_fallback, fallbackName_fastavroNorm, fallbackName_norm d.name.toList hname, String.ofList_toList]
      cases d; simp_all

/-- The `doc` sniff accepts the embedded descriptor exactly when there is at least one declared field. -/
theorem C19_doc_sniff (J : JsonTextLaws) (d : Desc) : docSniff (dumps J d) = true ↔ d.fields ≠ [] := by
  rw [docSniff_dumps]; cases d.fields <;> simp

/-- An unmapped field type is refused: no schema is built, the first `write` raises, nothing reaches the file, and
    every later `write` on that writer raises too (no writer was created) — nothing is ever written. -/
theorem C19_unmapped_refused (J : JsonTextLaws) (L : AvroLaws) (F : FloatLaws) (r r2 : Rec)
    (l1 l2 : List (String × String)) (t n : String)
    (hsplit : r.desc.fields = l1 ++ (t, n) :: l2) (h1 : ∀ f ∈ l1, Mappable f.1) (hbad : ¬ Mappable t) :
    descriptorToSchema J r.desc = .error (.unsupportedType t) ∧
    (write J L F .init r).2 = some (.unsupportedType t) ∧
    fileRows L (write J L F .init r).1 = some [] ∧
    (write J L F (write J L F .init r).1 r2).2 ≠ none ∧
    fileRows L (write J L F (write J L F .init r).1 r2).1 = some [] := by
  have herr : fieldsSchema (allFields r.desc) = .error (.unsupportedType t) := by
    unfold allFields
    rw [hsplit, List.append_assoc, List.cons_append]
    exact fieldsSchema_err l1 (l2 ++ _) t n h1 hbad
  have hd : descriptorToSchema J r.desc = .error (.unsupportedType t) := by simp [descriptorToSchema, herr]
  have hw : write J L F .init r = (⟨some r.desc, none, [], 0⟩, some (.unsupportedType t)) := by
    simp [write, WState.init, hd]
  refine ⟨hd, by rw [hw], by rw [hw]; rfl, ?_, ?_⟩
  · rw [hw]
    by_cases hm : some r.desc = some r2.desc <;> simp [write, hm]
  · rw [hw]
    by_cases hm : some r.desc = some r2.desc <;> simp [write, hm, fileRows]

/-- A second record type in one file is refused and the writer state (hence the file) is unchanged. -/
theorem C19_mixed_refused (J : JsonTextLaws) (L : AvroLaws) (F : FloatLaws) (st : WState) (d : Desc) (r : Rec)
    (hd : st.desc = some d) (hne : r.desc ≠ d) : write J L F st r = (st, some .mixed) := by
  have : ¬ (some d = some r.desc) := by simpa using fun h => hne h.symm
  simp [write, hd, this]

/-- Range: on an open writer holding `rows`, a record is written iff fastavro accepts every one of its values; then
    exactly the stored values are appended (ints, strings, bytes, booleans, instants unchanged; floats to single
    precision) — never anything else. Otherwise the write raises and the file still reads back `rows`. -/
theorem C19_range (J : JsonTextLaws) (L : AvroLaws) (F : FloatLaws) (st : WState) (cols : List (String × AType))
    (rows : List (List Val)) (r : Rec) (hclean : Clean L st cols rows) (hd : st.desc = some r.desc) :
    (allAccepted L cols r.values = true →
      (write J L F st r).2 = none ∧ Clean L (write J L F st r).1 cols (rows ++ [r.values.map (stored F)]) ∧
      fileRows L (write J L F st r).1 = some (rows ++ [r.values.map (stored F)])) ∧
    (allAccepted L cols r.values = false →
      (∃ i, (write J L F st r).2 = some (.refused i)) ∧ fileRows L (write J L F st r).1 = some rows) := by
  obtain ⟨hc1, hc2, chunks, hc3, hc4⟩ := hclean
  cases hem : emitRow L F cols r.values 0 with
  | mk toks e =>
    have hiff := emitRow_ok_iff L F cols r.values 0
    rw [hem] at hiff
    constructor
    · intro hacc
      have he : e = none := hiff.mpr hacc
      subst he
      have hw : write J L F st r = ({ st with buf := st.buf ++ toks, count := st.count + 1 }, none) := by
        simp [write, hd, hc1, hem]
      have htake : ∀ ex, takeRow L cols (toks ++ ex) = some (r.values.map (stored F), ex) :=
        fun ex => takeRow_emit L F cols r.values 0 toks ex hem
      have hclean' : Clean L { st with buf := st.buf ++ toks, count := st.count + 1 } cols
          (rows ++ [r.values.map (stored F)]) :=
        ⟨hc1, by simp [hc2], chunks ++ [toks], by simp [hc3],
          chunked_snoc L cols chunks rows toks _ hc4 htake⟩
      rw [hw]
      exact ⟨rfl, hclean', fileRows_clean L _ cols _ hclean'⟩
    · intro hrej
      cases e with
      | none => rw [hiff.mp rfl] at hrej; cases hrej
      | some i =>
        have hw : write J L F st r = ({ st with buf := st.buf ++ toks }, some (.refused i)) := by
          simp [write, hd, hc1, hem]
        rw [hw]
        exact ⟨⟨i, rfl⟩, fileRows_clean_extra L st cols rows toks ⟨hc1, hc2, chunks, hc3, hc4⟩⟩

/-- The admissible integers are exactly the 32-bit resp. 64-bit signed ranges; instants within 64-bit microseconds;
    a string iff it has no surrogate (strict UTF-8); the packed form of a digest never. -/
theorem C19_range_bounds (L : AvroLaws) (i : Int) (s : List Nat) :
    (L.accepts (.prim "int") (.int i) = true ↔ -2147483648 ≤ i ∧ i ≤ 2147483647) ∧
    (L.accepts (.prim "long") (.int i) = true ↔ -9223372036854775808 ≤ i ∧ i ≤ 9223372036854775807) ∧
    (L.accepts .tsMicros (.dt i) = true ↔ -9223372036854775808 ≤ i ∧ i ≤ 9223372036854775807) ∧
    (L.accepts (.prim "string") (.str s) = true ↔ ∀ c ∈ s, isSurrogate c = false) ∧
    (∀ t, L.accepts t .tuple = false) ∧ (∀ t, L.accepts t .null = true) := by
  refine ⟨?_, ?_, ?_, ?_, L.tuple_never, L.null_ok⟩
  · rw [L.int32]; simp
  · rw [L.int64]; simp
  · rw [L.ts64]; simp
  · rw [L.string_utf8]; simp

/-- The first write opens the file: for a mappable descriptor the writer becomes `Clean` with the schema's columns
    and no rows, and then behaves as `C19_range` says. -/
theorem C19_first_write (J : JsonTextLaws) (L : AvroLaws) (F : FloatLaws) (r : Rec) (s : Schema)
    (hs : descriptorToSchema J r.desc = .ok s) :
    write J L F .init r = write J L F ⟨some r.desc, some s.fields, [], 0⟩ r ∧
    Clean L ⟨some r.desc, some s.fields, [], 0⟩ s.fields [] := by
  refine ⟨by simp [write, WState.init, hs], rfl, rfl, [], rfl, trivial⟩

/-- The property for whole write sequences as C19 states it: whatever the caller does after a refusal, the file
    holds exactly the records whose `write` did not raise. -/
def C19_sequence_statement : Prop :=
  ∀ (J : JsonTextLaws) (L : AvroLaws) (F : FloatLaws) (recs : List Rec),
    fileRows L (writeAll J L F .init recs).1 = some (accepted F recs (writeAll J L F .init recs).2)

namespace C19_witness
def J0 : JsonTextLaws := { esc := String.toList, loads := fun _ => none }
def F0 : FloatLaws := ⟨id⟩
def d0 : Desc := ⟨"test/a", [("varint", "a"), ("string", "s1"), ("string", "s2"), ("datetime", "t"), ("varint", "v"),
  ("varint", "bad")]⟩
def mk (a : Int) (s1 s2 : List Nat) (t v bad : Int) (src : Val) : Rec :=
  ⟨d0, [.int a, .str s1, .str s2, .dt t, .int v, .int bad, src, .null, .dt 1577836800000000, .int 1]⟩
def r1 : Rec := mk 1 [97] [98] 1000 11 111 .null
def r2 : Rec := mk 2 [99] [100] 2000 22 9223372036854775808 .null
def r3 : Rec := mk 3 [101] [102] 3000 33 333 (.str [120])
end C19_witness

/-- FALSE of the model (and of the code, replayed by the harness): the refused record r2 leaves its first field in
    fastavro's block buffer; after the next write the file holds r1 and a record made of r2's first five fields and
    r3's first five values shifted into `bad`, `_source`, `_classification`, `_generated`, `_version` (`bad = 3`) — r3
    is gone and no reader sees an error. -/
theorem C19_sequence_counterexample : ¬ C19_sequence_statement := by
  intro h
  have := h C19_witness.J0 fastavro C19_witness.F0 [C19_witness.r1, C19_witness.r2, C19_witness.r3]
  revert this
  decide

/-- What does hold: as long as the caller stops writing to the file at the first refusal (every `write` before the
    last one succeeded), the file holds exactly the accepted records in order, stored values only. -/
theorem C19_sequence_partial (J : JsonTextLaws) (L : AvroLaws) (F : FloatLaws) (recs : List Rec) :
    ∀ (st : WState) (cols : List (String × AType)) (rows : List (List Val)), Clean L st cols rows →
      (∀ r ∈ recs, st.desc = some r.desc) →
      (∀ e ∈ (writeAll J L F st recs).2.dropLast, e = none) →
      fileRows L (writeAll J L F st recs).1 = some (rows ++ accepted F recs (writeAll J L F st recs).2) := by
  induction recs with
  | nil =>
    intro st cols rows hc _ _
    simpa [writeAll, accepted] using fileRows_clean L st cols rows hc
  | cons r rs ih =>
    intro st cols rows hc hdesc hok
    have hd := hdesc r List.mem_cons_self
    obtain ⟨hacc, hrej⟩ := C19_range J L F st cols rows r hc hd
    have hdesc' : ∀ st' : WState, st'.desc = st.desc → ∀ r' ∈ rs, st'.desc = some r'.desc :=
      fun st' h r' hr' => by rw [h]; exact hdesc r' (List.mem_cons_of_mem _ hr')
    cases hall : allAccepted L cols r.values with
    | true =>
      obtain ⟨h1, h2, _⟩ := hacc hall
      have hdsame : (write J L F st r).1.desc = st.desc := by
        obtain ⟨hc1, _⟩ := hc
        cases hem : emitRow L F cols r.values 0 with
        | mk toks e => cases e <;> simp [write, hd, hc1, hem]
      cases hw : write J L F st r with
      | mk st' e =>
        rw [hw] at h1 h2 hdsame
        simp only at h1 h2 hdsame
        subst h1
        cases hrest : writeAll J L F st' rs with
        | mk st'' es =>
          have hok' : ∀ e ∈ (writeAll J L F st' rs).2.dropLast, e = none := by
            intro e he
            apply hok e
            simp only [writeAll, hw, hrest]
            rw [hrest] at he
            cases es with
            | nil => simp at he
            | cons e0 es0 => simp only [List.dropLast_cons_cons]; exact List.mem_cons_of_mem _ he
          have := ih st' cols _ h2 (hdesc' st' hdsame) hok'
          rw [hrest] at this
          simp only [writeAll, hw, hrest, accepted]
          simpa [List.append_assoc] using this
    | false =>
      obtain ⟨⟨i, h1⟩, h2⟩ := hrej hall
      -- a refusal may only be the last write
      cases rs with
      | nil =>
        cases hw : write J L F st r with
        | mk st' e =>
          rw [hw] at h1 h2
          simp only at h1 h2
          subst h1
          simpa [writeAll, hw, accepted] using h2
      | cons r' rs' =>
        exfalso
        have := hok (some (.refused i)) (by
          cases hw : write J L F st r with
          | mk st' e =>
            rw [hw] at h1; simp only at h1; subst h1
            cases hrest : writeAll J L F st' (r' :: rs') with
            | mk st'' es =>
              simp only [writeAll, hw]
              have hes : es ≠ [] := by
                intro hes; subst hes
                simp [writeAll] at hrest
              cases es with
              | nil => exact absurd rfl hes
              | cons e0 es0 =>
                simp only [writeAll] at hrest
                simp )
        cases this

/-- End to end from a fresh writer: for records of one mappable descriptor, as long as the caller stops at the first
    refusal, a standard reader finds in the closed file exactly the accepted records, in order, as stored values. -/
theorem C19_file_contents (J : JsonTextLaws) (L : AvroLaws) (F : FloatLaws) (d : Desc) (s : Schema) (recs : List Rec)
    (hs : descriptorToSchema J d = .ok s) (hdesc : ∀ r ∈ recs, r.desc = d)
    (hstop : ∀ e ∈ (writeAll J L F .init recs).2.dropLast, e = none) :
    fileRows L (writeAll J L F .init recs).1 = some (accepted F recs (writeAll J L F .init recs).2) := by
  cases recs with
  | nil => rfl
  | cons r rs =>
    have hr : r.desc = d := hdesc r List.mem_cons_self
    have hs' : descriptorToSchema J r.desc = .ok s := by rw [hr]; exact hs
    obtain ⟨hw, hclean⟩ := C19_first_write J L F r s hs'
    have hall : writeAll J L F .init (r :: rs) = writeAll J L F ⟨some r.desc, some s.fields, [], 0⟩ (r :: rs) := by
      simp only [writeAll, hw]
    rw [hall] at hstop ⊢
    have := C19_sequence_partial J L F (r :: rs) ⟨some r.desc, some s.fields, [], 0⟩ s.fields [] hclean
      (by intro r' hr'; simp [hr, hdesc r' hr']) hstop
    simpa using this

/-- Reader conversion: a datetime delivered by the Avro library passes through unchanged whatever its instant
    (before 1970, near the epoch, far future); a raw number in a datetime field is taken for microseconds only above
    the extracted threshold. -/
theorem C19_reader_conv (m i : Int) :
    readerConv true (.dt m) = .dt m ∧ readerConv false (.int i) = .int i ∧
    (readerConv true (.int i) = .dt i ↔ i > 4294967295) := by
  refine ⟨rfl, rfl, ?_⟩
  have : Gen.avroReaderTsThreshold = 4294967295 := by decide
  simp only [readerConv, this, Bool.true_and]
  by_cases h : i > 4294967295 <;> simp [h]

/-- Inst over the tables as extracted now: every Avro type the writer emits is one the fallback reader maps (a key of
    `RECORD_TYPE_MAP`) or belongs to the logical-type branch; the logical branch is `datetime`; every reserved field
    is mappable and starts with `_` (so the fallback skips it); the sniffed prefix/suffix; the shapes of
    `AvroWriter.write`, the unmapped-type raise, the reader's conversion; `close()` flushes. -/
theorem C19_inst :
    (∀ p ∈ Gen.AVRO_TYPE_MAP, p.1 = Gen.avroLogicalFieldType ∨ (assoc Gen.RECORD_TYPE_MAP p.2).isSome = true) ∧
    (∀ p ∈ Gen.AVRO_TYPE_MAP, p.2 ≠ "") ∧
    Gen.avroLogicalFieldType = "datetime" ∧
    (∀ p ∈ Gen.RESERVED_FIELDS, p.1.toList.head? = some '_' ∧ (assoc Gen.AVRO_TYPE_MAP p.2).isSome = true) ∧
    Gen.avroDocPrefix = "[\"" ∧ Gen.avroDocSuffix = "]]]" ∧
    Gen.avroCloseFlushes = true ∧ Gen.avroUnmappedRaises = true ∧ Gen.avroIteratesAllFields = true ∧
    Gen.avroFallbackSkipsUnderscore = true ∧ Gen.avroReaderTsThreshold = 4294967295 ∧
    Gen.avroNameSplit = "namespace, _, name = desc.name.rpartition('/')" ∧
    Gen.avroDocExpr = "json.dumps(desc._pack())" ∧
    Gen.avroLogicalSchema = "[{'type': 'long', 'logicalType': 'timestamp-micros'}, {'type': 'null'}]" ∧
    Gen.avroPlainSchema = "[avro_type, 'null']" ∧
    Gen.avroFallbackName = "'/'.join([schema.get('namespace', ''), schema.get('name', '')]).replace('.', '/').strip('/')" ∧
    Gen.avroReaderTsTest = "isinstance(value, (int, float)) and value > 4294967295" ∧
    Gen.avroReaderTsConv = "EPOCH + timedelta(microseconds=value)" := by
  refine ⟨by decide, by decide, rfl, by decide, rfl, rfl, rfl, rfl, rfl, rfl, by decide, rfl, rfl, rfl, rfl, rfl, rfl, rfl⟩

/-- Inst: the body of `AvroWriter.write` is the three statements the writer model transcribes (descriptor stored
    before the schema is built; mixed-type test; one `writer.write` of the packed dict). -/
theorem C19_inst_write :
    Gen.avroWriteBody = [
      "if not self.desc:\n    self.desc = r._desc\n    self.schema = descriptor_to_schema(self.desc)\n    self.parsed_schema = fastavro.parse_schema(self.schema)\n    self.writer = fastavro.write.Writer(self.fp, self.parsed_schema, codec=self.codec)",
      "if self.desc != r._desc:\n    raise Exception('Mixed record types')",
      "self.writer.write(r._packdict())"] := rfl

/-- What a doc-less reader (or the fallback path) makes of each mapped type: the coarse flow type. -/
theorem C19_fallback_types :
    Gen.AVRO_TYPE_MAP.map (fun p => (p.1,
      match fieldSchema p.1 with
      | .ok a => (match avroTypeToFlowType a.toJ with | .ok ft => some ft | .error _ => none)
      | .error _ => none)) =
    [("boolean", some "boolean"), ("datetime", some "datetime"), ("filesize", some "varint"), ("uint16", some "varint"),
     ("uint32", some "varint"), ("float", some "float"), ("string", some "string"), ("unix_file_mode", some "varint"),
     ("varint", some "varint"), ("wstring", some "string"), ("uri", some "string"), ("digest", some "bytes"),
     ("bytes", some "bytes")] := by
  decide

-- Non-vacuity
namespace C19_nonvacuous
open C19_witness
example : NameOk "filesystem/entry".toList := ⟨by decide, by decide, by decide⟩
example : Mappable "uint32" := Or.inr ⟨"int", by decide, by decide⟩
example : ¬ Mappable "path" := by
  intro h
  rcases h with h | ⟨a, ha, _⟩
  · revert h; decide
  · have : assoc Gen.AVRO_TYPE_MAP "path" = none := by decide
    rw [this] at ha; cases ha
example : docSniff (dumps J0 ⟨"test/a", []⟩) = false := by decide
example : docSniff (dumps J0 d0) = true := by decide
example : (write J0 fastavro F0 .init r1).2 = none := by decide
example : (write J0 fastavro F0 (write J0 fastavro F0 .init r1).1 r2).2 = some (.refused 5) := by decide
example : fileRows fastavro (writeAll J0 fastavro F0 .init [r1, r2, r3]).1 =
    some [r1.values, [.int 2, .str [99], .str [100], .dt 2000, .int 22, .int 3, .str [101], .str [102], .dt 3000,
      .int 33]] := by decide
example : fileRows fastavro (writeAll J0 fastavro F0 .init [r1, r3, r2]).1 = some [r1.values, r3.values] := by decide
end C19_nonvacuous


/-- READERS BUILD RECORDS BY KEYWORD: for record types with a field named like a Python keyword the generated
    constructor assigns `kwargs.get(k, v)` - a value handed over by keyword is the slot's value also when it is falsy
    (0, "", False, an empty list), and `_unpack` tests `is not None`. The template text is regenerated from the source
    and must equal the frozen text this meaning belongs to. -/
theorem C19_keyword_constructor_keeps_values {V : Type} (x pos : V) :
    (FlowRecord.Gen.tplKwInit = FlowRecord.KwCtor.frozenInit ∧ FlowRecord.Gen.tplKwUnpack = FlowRecord.KwCtor.frozenUnpack) ∧
    FlowRecord.KwCtor.slotValue (some x) pos = x ∧ FlowRecord.KwCtor.slotValue (none : Option V) pos = pos :=
  ⟨FlowRecord.KwCtor.template_is_frozen, rfl, rfl⟩
