import FlowRecordProofs.Lemmas.Registry
import FlowRecord.Gen.Formats
/-!
C03 — every record is decoded with the descriptor it was written with. Property theorems only.

A descriptor carries its 32-bit identifier hash as a *field* (`Desc.hash`), so every theorem below holds for ANY
assignment of hashes to descriptors — including assignments where different descriptors share an identifier.
Histories are lists of objects (records, records holding nested records, grouped records) of any length.
-/
open FlowRecord FlowRecord.Wire FlowRecord.Stream

/-- Inst: the registration guard of `pack_obj`, as read off the current source, compares the registered descriptor
    (not only the identifier). The history theorem depends on exactly this. -/
theorem C03_guard_compares_descriptor : Gen.writerGuardKind = "descriptor-comparison" := by decide

/-- The JSON packer makes the same test for EVERY record it packs: `if self.descriptors.get(identifier) != obj._desc:
    self.register(obj._desc, True)` is an unconditional statement of the record branch of `pack_obj`, ahead of the
    serialisation - not a test made only when the record's class changes (every grouped record is an instance of one
    class, whatever it groups), nor one behind a cache. -/
theorem C03_json_packer_tests_every_record : Gen.jsonPackerGuardsDescriptor = true := by decide

/-- The history theorem. For every write history and every assignment of identifier hashes: the reader, fed the
    frames the writer emitted, decodes every object with each of its descriptors (own, nested, grouped members)
    bound to *itself*. Hypothesis: inside one single object no two different descriptors share an identifier
    (such an object travels in one frame, which no registration order can disambiguate — see the counterexample). -/
theorem C03_own_descriptor (os : List PV) (reg : Registry)
    (hn : ∀ o ∈ os, NoInnerCollision (descsOf o)) :
    consume reg (emitAll reg os).2 = os.map (fun o => (o, (descsOf o).map some)) :=
  consume_emitAll C03_guard_compares_descriptor os reg hn

/-- The same with FAILING writes in between: a write may raise while the object is being packed, after any number
    `k` of its descriptors were met and registered (their frames are on the stream, the object's frame is not), and
    the caller carries on with the same writer. Every object whose write succeeded is still decoded with each of its
    descriptors bound to itself — a later good record of a type whose first write attempt failed finds the descriptor
    frame the failed attempt left behind. No hypothesis on the failed objects. -/
theorem C03_own_descriptor_failed_writes (h : List (PV × Option Nat)) (reg : Registry)
    (hn : ∀ e ∈ h, e.2 = none → NoInnerCollision (descsOf e.1)) :
    consume reg (emitHist reg h).2 =
      (h.filter (fun e => e.2.isNone)).map (fun e => (e.1, (descsOf e.1).map some)) :=
  consume_emitHist C03_guard_compares_descriptor h reg hn

/-- ... and reader and writer registries still agree at the end of such a history. -/
theorem C03_registries_agree_failed_writes (h : List (PV × Option Nat)) (reg : Registry) :
    consumeReg reg (emitHist reg h).2 = (emitHist reg h).1 :=
  consumeReg_emitHist h reg

/-- a history without failing writes is `emitAll` -/
theorem C03_emitHist_all_ok (os : List PV) (reg : Registry) :
    emitHist reg (os.map (fun o => (o, none))) = emitAll reg os := by
  induction os generalizing reg with
  | nil => rfl
  | cons o os ih => simp only [List.map_cons, emitHist, emitAll, ih]

/-- Definition before use: within the frames of one write, every descriptor frame precedes the object frame, and
    the object frame is last. -/
theorem C03_desc_before_use (reg : Registry) (o : PV) :
    ∃ ds : List Desc, (emit reg o).2 = ds.map AFrame.desc ++ [AFrame.obj o] :=
  ⟨(newDescs reg (descsOf o)).2, rfl⟩

/-- The reader's registry after consuming a history equals the writer's registry after producing it. -/
theorem C03_registries_agree (os : List PV) (reg : Registry) :
    consumeReg reg (emitAll reg os).2 = (emitAll reg os).1 := by
  induction os generalizing reg with
  | nil => simp [emitAll, consumeReg]
  | cons o os ih =>
    simp only [emitAll, emit, List.append_assoc]
    rw [consumeReg_newDescs]
    simp only [List.cons_append, List.nil_append, consumeReg]
    exact ih _

theorem mapM_some_length {α β : Type} (f : α → Option β) (xs : List α) (ys : List β)
    (h : xs.mapM f = some ys) : ys.length = xs.length := by
  induction xs generalizing ys with
  | nil => simp [List.mapM_nil] at h; subst h; rfl
  | cons x xs ih =>
    rw [List.mapM_cons] at h
    cases hx : f x with
    | none => simp [hx] at h
    | some y =>
      cases hr : xs.mapM f with
      | none => simp [hx, hr] at h
      | some r =>
        simp [hx, hr] at h
        subst h
        simp [ih r hr]

/-- The byte-level writer registers exactly what the abstract view says and writes one frame per abstract frame
    (plus the header frame of a fresh stream). -/
theorem C03_write_matches_emit (st st' : WState) (o : PV) (fs : List Bytes) (h : write st o = some (st', fs)) :
    st'.registry = (emit st.registry o).1 ∧
    fs.length = (if st.headerWritten then 0 else 1) + (emit st.registry o).2.length := by
  unfold write at h
  cases hd : (newDescs st.registry (descsOf o)).2.mapM (fun d => (toM (.desc d)).map Msgpack.enc) with
  | none => simp [hd] at h
  | some dframes =>
    cases hb : (toM o).map Msgpack.enc with
    | none => simp [hd, hb] at h
    | some body =>
      simp only [hd, hb, Option.some.injEq, Prod.mk.injEq] at h
      obtain ⟨h1, h2⟩ := h
      subst h1 h2
      have hlen : dframes.length = (newDescs st.registry (descsOf o)).2.length := mapM_some_length _ _ _ hd
      constructor
      · rfl
      · simp only [emit, List.length_append, List.length_map, List.length_cons, List.length_nil, hlen]
        split <;> simp <;> omega

/-- ... and so does a write that raises: it registers what `emitFailed` says and writes one frame per descriptor
    frame of the abstract view (plus the header of a fresh stream), no object frame. -/
theorem C03_writeFailed_matches_emit (st st' : WState) (o : PV) (k : Nat) (fs : List Bytes)
    (h : writeFailed st o k = some (st', fs)) :
    st'.registry = (emitFailed st.registry o k).1 ∧
    fs.length = (if st.headerWritten then 0 else 1) + (emitFailed st.registry o k).2.length := by
  unfold writeFailed at h
  cases hd : (newDescs st.registry ((descsOf o).take k)).2.mapM (fun d => (toM (.desc d)).map Msgpack.enc) with
  | none => simp [hd] at h
  | some dframes =>
    simp only [hd, Option.some.injEq, Prod.mk.injEq] at h
    obtain ⟨h1, h2⟩ := h
    subst h1 h2
    have hlen : dframes.length = (newDescs st.registry ((descsOf o).take k)).2.length := mapM_some_length _ _ _ hd
    constructor
    · rfl
    · simp only [emitFailed, List.length_append, List.length_map, hlen]
      split <;> simp

/-- a byte-level history without failing writes is `writeAll` -/
theorem C03_writeHist_all_ok (os : List PV) (st : WState) :
    writeHist st (os.map (fun o => (o, none))) = writeAll st os := by
  induction os generalizing st with
  | nil => rfl
  | cons o os ih =>
    simp only [List.map_cons, writeHist, writeAll]
    cases write st o with
    | none => rfl
    | some r => simp [ih]

/-- Several writers open at the same time: the frames of writer i in an interleaved history are the frames of the
    projection of the history to writer i run alone — what one writer has emitted never suppresses what another
    must emit. -/
def emitMulti (regs : Nat → Registry) : List (Nat × PV) → (Nat → Registry) × List (Nat × AFrame)
  | [] => (regs, [])
  | (w, o) :: rest =>
    let r := emit (regs w) o
    let regs' := fun i => if i = w then r.1 else regs i
    let r2 := emitMulti regs' rest
    (r2.1, r.2.map (fun f => (w, f)) ++ r2.2)

theorem C03_writers_independent (hist : List (Nat × PV)) (regs : Nat → Registry) (i : Nat) :
    ((emitMulti regs hist).2.filter (fun f => f.1 == i)).map (·.2) =
      (emitAll (regs i) ((hist.filter (fun e => e.1 == i)).map (·.2))).2 := by
  induction hist generalizing regs with
  | nil => simp [emitMulti, emitAll]
  | cons e rest ih =>
    obtain ⟨w, o⟩ := e
    simp only [emitMulti, List.filter_append, List.map_append]
    by_cases hw : w = i
    · subst hw
      have h1 : (List.map (fun f => (w, f)) (emit (regs w) o).2).filter (fun f => f.1 == w) =
          List.map (fun f => (w, f)) (emit (regs w) o).2 := by
        apply List.filter_eq_self.mpr; intro a ha; simp at ha; obtain ⟨_, _, rfl⟩ := ha; simp
      simp only [h1, List.map_map, List.filter_cons, beq_self_eq_true, if_true, List.map_cons, emitAll]
      have := ih (fun j => if j = w then (emit (regs w) o).1 else regs j)
      simp only [if_true] at this
      rw [this]
      congr 1
      simp [Function.comp_def]
    · have h1 : (List.map (fun f => (w, f)) (emit (regs w) o).2).filter (fun f => f.1 == i) = [] := by
        apply List.filter_eq_nil_iff.mpr; intro a ha; simp at ha; obtain ⟨_, _, rfl⟩ := ha; simp [hw]
      have hwi : (w == i) = false := by simp [hw]
      simp only [h1, List.map_nil, List.nil_append, List.filter_cons, hwi]
      have := ih (fun j => if j = w then (emit (regs w) o).1 else regs j)
      have hi : ¬ i = w := fun h => hw h.symm
      simp only [if_neg hi] at this
      simpa using this

-- The hypothesis of `C03_own_descriptor` cannot be dropped: a holder whose two nested records have different
-- descriptors with one identifier travels in ONE frame; the reader has a single binding for that identifier.
namespace C03_witness
def dA : Desc := { name := [116], fields := [([115], [97])], hash := 7 }
def dB : Desc := { name := [116], fields := [([115], [98])], hash := 7 }
def dH : Desc := { name := [104], fields := [], hash := 1 }
def holder : PV := .record dH [.record dA [], .record dB []]
end C03_witness
open C03_witness in
theorem C03_inner_collision_counterexample :
    ¬ ((consume [] (emit [] holder).2).map (·.2) = [(descsOf holder).map some]) := by decide

-- non-vacuity: a history with two *different* descriptors sharing an identifier, in separate objects
open C03_witness in
example : (consume [] (emitAll [] [.record dA [], .record dB [], .record dA []]).2).map (·.2) =
    [[some dA], [some dB], [some dA]] := by decide

-- non-vacuity for failing writes: the first write of `dA` fails after its descriptor was registered; the good record
-- that follows emits no second descriptor frame and is decoded with `dA`; a failed holder registers only its own
open C03_witness in
example : ((emitHist [] [(.record dA [], some 1), (.record dA [], none)]).2.map
    (fun f => match f with | .desc d => some d | .obj _ => none)) = [some dA, none] := by decide
open C03_witness in
example : (consume [] (emitHist [] [(.record dA [], some 1), (.record dA [], none), (holder, some 1),
    (.record dB [], none)]).2).map (·.2) = [[some dA], [some dB]] := by decide
