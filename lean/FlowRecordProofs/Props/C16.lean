import FlowRecordProofs.Lemmas.Rdump
import FlowRecordProofs.Lemmas.RdumpUri
/-!
C16 — rdump output is the specified slice of the filtered input.
Property theorems only (helper lemmas: `Lemmas/Rdump.lean`). `pipeline` is `Model/Rdump.lean`; the order of the loop
body, the islice stop rule, `record_stream`'s handlers, the metadata rule of the timestamp expansion and the URI tables
are the ones extracted from the current source. Domain: selectors whose sub-expressions are defined on every readable
record (total matchers); what `record_stream` does with a selector that raises is stated separately
(`C16_raising_selector_truncates_source`). KeyboardInterrupt is outside (re-raised by design).
-/
open FlowRecord FlowRecord.Readers FlowRecord.Rdump

/-- No source ends in, and the selector never raises, a KeyboardInterrupt. -/
def C16_NoInterrupt {V : Type} (sel : Option (Matcher (Rec V) ErrKind)) (srcs : List (Source (Rec V))) : Prop :=
  ∀ s ∈ srcs, (readSource sel s).err ≠ some .interrupt

/-- Inst: the loop body is override-source, override-classification, rewrite, emit — in this order; selection
    happens inside `record_stream`, i.e. before the slice; the stop of the slice is None when COUNT is 0/absent;
    `record_stream` continues with the next source after IOError and after any other Exception and re-raises only
    KeyboardInterrupt; the writer is closed in a `finally`; the expansion keeps the original's metadata; the
    timestamp descriptor, the rewriter's arguments and the pieces of the URI construction are the ones the model's
    functions transcribe. -/
theorem C16_inst_shape :
    Gen.rdumpLoopOrder = ["source", "classification", "rewrite", "emit"] ∧
    Gen.rdumpSelectsInsideStream = true ∧ Gen.rdumpStopNoneWhenCountFalsy = true ∧
    Gen.rdumpSliceArgs = "args.skip, islice_stop" ∧
    action .io = "next" ∧ action .other = "next" ∧ action .interrupt = "raise" ∧
    Gen.recordStreamPassesSelector = true ∧ Gen.recordStreamYieldsEveryRecord = true ∧
    Gen.recordStreamOpensInsideTry = true ∧ Gen.rdumpEmitExpandsThenWrites = true ∧
    Gen.rdumpListModeWritesNothing = true ∧ Gen.rdumpWriterClosedInFinally = true ∧
    Gen.rdumpCompiledUnlessNoCompile = true ∧ Gen.tsExpandKeepsMetadata = true ∧
    Gen.rewriterIdentityWhenNoOptions = true ∧ Gen.rewriterKeepsAllValues = true ∧
    Gen.rewriterFieldsInRequestedOrder = true ∧ Gen.rewriterExcludeKeepsOrder = true ∧
    Gen.rewriterKeepsName = true ∧ Gen.tsExpandNoDatetimeIsIdentity = true ∧
    Gen.tsRecordFields = [("datetime", "ts"), ("string", "ts_description")] ∧ Gen.tsLoopRebindsRecord = true ∧
    Gen.rdumpRewriterCondition = "fields or fields_to_exclude or args.exec_expression" ∧
    Gen.rdumpRewriterArgs = "fields, fields_to_exclude, args.exec_expression" ∧
    Gen.rdumpDefaultUri = "text://" ∧ Gen.rdumpModeOnlyWithoutWriter = true ∧
    Gen.rdumpQueryKeys = ["fields", "exclude", "format_spec"] ∧ Gen.rdumpQueryDropsEmpty = true ∧
    Gen.rdumpQueryAppendShape = "amp-only-or-question-plus-query" ∧
    Gen.rdumpSplitWrapNoScheme = "split://{uri}" ∧ Gen.rdumpSplitWrapScheme = "split+{uri}" ∧
    Gen.rdumpSplitQueryKeys = ["count", "suffix-length"] ∧ Gen.rdumpSplitRequiresWriter = true ∧
    Gen.rdumpSplitRebuild = "parsed.scheme + '://' + parsed.netloc + parsed.path + '?' + query" ∧
    Gen.rdumpWriterFieldsSource = "writer_fields" ∧ Gen.rdumpWriterFieldsKeepTs = true := by decide

/-- The csv and line writers select fields once more from the `fields` argument rdump hands them. With `-F` and
    `--multi-timestamp` that argument starts with the two fields of the timestamp expansion, so the writer-side
    selection keeps them: every name of `-F` is still selected, in order, after `ts, ts_description` (the defect
    recorded as C16-writer-projection-drops-ts, repaired by a `fix:` commit; without the flag the statement fails). -/
theorem C16_writer_fields_keep_ts (f : String) (hf : f.isEmpty = false) :
    writerFields true (some f) = some ("ts,ts_description," ++ f) ∧ writerFields false (some f) = some f ∧
    writerFields true none = none := by
  simp [writerFields, hf, show Gen.rdumpWriterFieldsKeepTs = true by decide]

/-- Per-source isolation, for every placement of failing sources and every selector (raising ones included):
    the stream is the concatenation, in source order, of what each source's own reader yields; a source that fails
    contributes what it yielded before failing and never stops a later one. -/
theorem C16_isolation {V : Type} (sel : Option (Matcher (Rec V) ErrKind)) (srcs : List (Source (Rec V)))
    (h : C16_NoInterrupt sel srcs) :
    recordStream sel srcs = ⟨srcs.flatMap (fun s => (readSource sel s).out), none⟩ :=
  recordStreamIn_flat _ sel srcs (continues_of_no_interrupt sel srcs h)

/-- ... in particular around any single source `s` (missing, truncated, garbage or good) placed anywhere. -/
theorem C16_isolation_placement {V : Type} (sel : Option (Matcher (Rec V) ErrKind))
    (before after : List (Source (Rec V))) (s : Source (Rec V))
    (h : C16_NoInterrupt sel (before ++ s :: after)) :
    (recordStream sel (before ++ s :: after)).out
      = (recordStream sel before).out ++ (readSource sel s).out ++ (recordStream sel after).out ∧
    (readSource sel ⟨[], some .io⟩).out = [] := by
  have hb : C16_NoInterrupt sel before := fun x hx => h x (by simp [hx])
  have ha : C16_NoInterrupt sel after := fun x hx => h x (by simp [hx])
  rw [C16_isolation sel _ h, C16_isolation sel _ hb, C16_isolation sel _ ha]
  refine ⟨by simp [List.flatMap_append], ?_⟩
  cases sel <;> simp [readSource, filterAfter]

/-- The slice law: `islice(stream, SKIP, (COUNT + SKIP) if COUNT else None)` is "drop SKIP, then keep COUNT",
    COUNT = 0 or absent meaning no limit (as the repository's tests pin); never more than COUNT records. -/
theorem C16_slice {α : Type} (xs : List α) (skip : Nat) (count : Option Nat) :
    islice xs skip (sliceStop skip count) = sliceSpec skip count xs ∧
    sliceSpec skip (some 0) xs = xs.drop skip ∧ sliceSpec skip none xs = xs.drop skip ∧
    (∀ c, c ≠ 0 → sliceSpec skip (some c) xs = (xs.drop skip).take c ∧ (sliceSpec skip (some c) xs).length ≤ c) := by
  refine ⟨islice_spec C16_inst_shape.2.2.1 xs skip count, rfl, rfl, ?_⟩
  intro c hc
  cases c with
  | zero => exact absurd rfl hc
  | succ n => simp [sliceSpec, List.length_take, Nat.min_le_left]

/-- The property at full strength on its domain: for every option combination, every list of sources (failing
    ones at any position) and every selector that is defined on every readable record, what reaches the writer is —
    in order — the concatenated readable prefixes, filtered, minus the first SKIP, limited to COUNT, each record
    then overridden / projected (and expanded per timestamp if asked). Selection precedes the slice and the slice
    precedes projection. -/
theorem C16_pipeline_spec {V : Type} (strVal : String → V) (fm : V × V × V) (o : Opts V)
    (m : Matcher (Rec V) ErrKind) (p : Rec V → Bool) (srcs : List (Source (Rec V)))
    (hm : ∀ s ∈ srcs, ∀ r ∈ s.readable, m r = .ok (p r))
    (hni : ∀ s ∈ srcs, s.fails ≠ some .interrupt) :
    let kept := sliceSpec o.skip o.count ((srcs.flatMap (·.readable)).filter p)
    let out := pipeline strVal fm o (some m) srcs
    out.crash = none ∧ out.processed = kept.length ∧
    (o.list = false → out.written = kept.flatMap (fun r => emit strVal fm o (perRecord o r)) ∧ out.listed = []) ∧
    (o.list = true → out.written = [] ∧ out.listed = dedup (kept.map (fun r => (perRecord o r).desc))) := by
  have hrs : ∀ s ∈ srcs, readSource (some m) s = ⟨s.readable.filter p, s.fails⟩ :=
    fun s hs => readSource_total m p s (hm s hs)
  have hni' : C16_NoInterrupt (some m) srcs := by
    intro s hs; rw [hrs s hs]; exact hni s hs
  have hflat : (srcs.flatMap fun s => (readSource (some m) s).out) = (srcs.flatMap (·.readable)).filter p := by
    rw [List.filter_flatMap]
    exact flatMap_congr' _ _ _ (fun s hs => by rw [hrs s hs])
  simp only [pipeline, C16_isolation (some m) srcs hni', hflat, islice_spec C16_inst_shape.2.2.1]
  cases hl : o.list <;> simp [List.map_map, Function.comp_def, List.flatMap_map]

/-- No selector: the same with "filtered" = everything. -/
theorem C16_pipeline_spec_noselector {V : Type} (strVal : String → V) (fm : V × V × V) (o : Opts V)
    (srcs : List (Source (Rec V))) (hni : ∀ s ∈ srcs, s.fails ≠ some .interrupt) (hl : o.list = false) :
    (pipeline strVal fm o none srcs).written =
      (sliceSpec o.skip o.count (srcs.flatMap (·.readable))).flatMap (fun r => emit strVal fm o (perRecord o r)) := by
  have hni' : C16_NoInterrupt none srcs := fun s hs => hni s hs
  simp [pipeline, C16_isolation none srcs hni', islice_spec C16_inst_shape.2.2.1, hl, readSource, List.flatMap_map]

/-- With no options rdump is the identity on the readable records. -/
theorem C16_identity {V : Type} (strVal : String → V) (fm : V × V × V) (srcs : List (Source (Rec V)))
    (hni : ∀ s ∈ srcs, s.fails ≠ some .interrupt) :
    (pipeline strVal fm {} none srcs).written = srcs.flatMap (·.readable) ∧
    (pipeline strVal fm {} none srcs).crash = none := by
  have hni' : C16_NoInterrupt none srcs := fun s hs => hni s hs
  constructor
  · rw [C16_pipeline_spec_noselector strVal fm {} srcs hni rfl]
    simp [sliceSpec, Rdump.emit, perRecord_eq, project, overrideSource, overrideClassification]
  · simp [pipeline, C16_isolation none srcs hni']

/-- What `record_stream` does with a selector that raises (outside the property's domain, stated so that it is
    on record): the source in which it raises contributes the matching records *before* the raising one — the rest
    of that source is dropped — and later sources are read normally. -/
theorem C16_raising_selector_truncates_source {V : Type} (m : Matcher (Rec V) ErrKind) (p : Rec V → Bool)
    (before after : List (Source (Rec V))) (pre post : List (Rec V)) (r : Rec V) (fails : Option ErrKind)
    (hb : ∀ s ∈ before ++ after, ∀ x ∈ s.readable, m x = .ok (p x))
    (hni : ∀ s ∈ before ++ after, s.fails ≠ some .interrupt)
    (hpre : ∀ x ∈ pre, m x = .ok (p x)) (hr : m r = .error .other) :
    (recordStream (some m) (before ++ ⟨pre ++ r :: post, fails⟩ :: after)).out
      = (before.flatMap (·.readable)).filter p ++ pre.filter p ++ (after.flatMap (·.readable)).filter p := by
  have hs : readSource (some m) ⟨pre ++ r :: post, fails⟩ = ⟨pre.filter p, some .other⟩ :=
    filterAfter_raise m p pre r post .other fails hpre hr
  have hrs : ∀ s ∈ before ++ after, readSource (some m) s = ⟨s.readable.filter p, s.fails⟩ :=
    fun s hs => readSource_total m p s (hb s hs)
  have hni' : C16_NoInterrupt (some m) (before ++ ⟨pre ++ r :: post, fails⟩ :: after) := by
    intro s hs
    simp only [List.mem_append, List.mem_cons] at hs
    rcases hs with h | h | h
    · rw [hrs s (by simp [h])]; exact hni s (by simp [h])
    · subst h; rw [hs]; simp
    · rw [hrs s (by simp [h])]; exact hni s (by simp [h])
  have e1 : (before.flatMap fun s => (readSource (some m) s).out) = (before.flatMap (·.readable)).filter p := by
    rw [List.filter_flatMap]; exact flatMap_congr' _ _ _ (fun s h => by rw [hrs s (by simp [h])])
  have e2 : (after.flatMap fun s => (readSource (some m) s).out) = (after.flatMap (·.readable)).filter p := by
    rw [List.filter_flatMap]; exact flatMap_congr' _ _ _ (fun s h => by rw [hrs s (by simp [h])])
  rw [C16_isolation (some m) _ hni']
  simp [List.flatMap_append, hs, e1, e2]

/-- The order of the stages matters, and it is the specified one: the selector sees the *unprojected* record (it may
    mention a field that `-X` removes) and the slice counts *matching* records. -/
theorem C16_order_matters :
    let r1 : Rec Nat := ⟨"t/a", [("varint", "n", 1), ("string", "s", 10)], 0, 0, 0⟩
    let r2 : Rec Nat := ⟨"t/a", [("varint", "n", 2), ("string", "s", 20)], 0, 0, 0⟩
    let m : Matcher (Rec Nat) ErrKind := fun r => .ok (r.fields.any (fun f => f.2.1 == "n" && f.2.2 == 2))
    let o : Opts Nat := { exclude := ["n"], count := some 1 }
    (pipeline (fun _ => 0) (0, 0, 0) o (some m) [⟨[r1, r2], none⟩]).written = [⟨"t/a", [("string", "s", 20)], 0, 0, 0⟩] ∧
    -- projecting first would make the selector reject everything; slicing first would keep r1 and reject it
    ([r1, r2].map (perRecord o)).filter (fun r => match m r with | .ok true => true | _ => false) = [] ∧
    (sliceSpec 0 (some 1) [r1, r2]).filter (fun r => match m r with | .ok true => true | _ => false) = [] := by
  decide

/-- The records handed to the writer do not depend on output mode, writer URI, split size or `-n`'s presentation
    side: `run` computes them from the options, the selector and the sources alone ... -/
theorem C16_mode_independent {V : Type} (strVal : String → V) (fm : V × V × V)
    (evalI evalC : String → Matcher (Rec V) ErrKind) (p1 p2 : Present) (h : p1.noCompile = p2.noCompile)
    (selector : Option String) (o : Opts V) (srcs : List (Source (Rec V))) :
    run strVal fm evalI evalC p1 selector o srcs = run strVal fm evalI evalC p2 selector o srcs := by
  simp [run, h]

/-- ... and not on the engine either (`-n`), wherever the two engines agree on the readable records (C07). -/
theorem C16_engine_independent {V : Type} (strVal : String → V) (fm : V × V × V)
    (evalI evalC : String → Matcher (Rec V) ErrKind) (p : Present) (e : String) (o : Opts V)
    (srcs : List (Source (Rec V))) (hagree : ∀ s ∈ srcs, ∀ r ∈ s.readable, evalI e r = evalC e r) :
    run strVal fm evalI evalC { p with noCompile := true } (some e) o srcs
      = run strVal fm evalI evalC { p with noCompile := false } (some e) o srcs := by
  by_cases he : e.isEmpty
  · simp [run, rdumpSelector, makeSelector, he]
  · have he' : e.isEmpty = false := by simpa using he
    have h1 : rdumpSelector evalI evalC (some e) true = some (evalI e) := by
      simp [rdumpSelector, makeSelector, mkInterp, he', Sel.matcher]
    have h2 : rdumpSelector evalI evalC (some e) false = some (evalC e) := by
      simp [rdumpSelector, makeSelector, mkCompiled, he', Sel.matcher]
    have hsrc : ∀ s ∈ srcs, readSource (some (evalI e)) s = readSource (some (evalC e)) s :=
      fun s hs => filterAfter_congr _ _ _ _ (hagree s hs)
    have hstream : ∀ l : List (Source (Rec V)), (∀ s ∈ l, s ∈ srcs) →
        recordStream (some (evalI e)) l = recordStream (some (evalC e)) l := by
      intro l
      induction l with
      | nil => intro _; rfl
      | cons s t ih =>
        intro hl
        simp only [recordStream, recordStreamIn] at ih ⊢
        rw [hsrc s (hl s (by simp)), ih (fun x hx => hl x (by simp [hx]))]
    simp only [run, h1, h2, pipeline, hstream srcs (fun _ h => h)]

/-- Projection, exclusion and overrides: every field of the output is a field of the input with its type and value
    unchanged; with `-F` the fields come in the requested order (unknown, reserved and excluded names skipped), with
    only `-X` in descriptor order; the descriptor name and `_generated` are kept; `_source` / `_classification` are
    the override when given, else unchanged. -/
theorem C16_projection {V : Type} (o : Opts V) (r : Rec V) :
    (∀ f ∈ (perRecord o r).fields, f ∈ r.fields) ∧
    (o.fields ≠ [] → (perRecord o r).fieldNames
        = (o.fields.filter (fun n => !o.exclude.contains n)).filter (fun n => r.fieldNames.contains n)) ∧
    (o.fields = [] → (perRecord o r).fields = r.fields.filter (fun f => !o.exclude.contains f.2.1)) ∧
    (perRecord o r).name = r.name ∧ (perRecord o r).generated = r.generated ∧
    (perRecord o r).source = o.source.getD r.source ∧
    (perRecord o r).classification = o.classification.getD r.classification := by
  rw [perRecord_eq]
  have hov : ∀ x : Rec V, (overrideClassification o.classification (overrideSource o.source x)).fields = x.fields := by
    intro x; cases o.source <;> cases o.classification <;> rfl
  have hm := project_meta o.fields o.exclude (overrideClassification o.classification (overrideSource o.source r))
  refine ⟨?_, ?_, ?_, ?_, ?_, ?_, ?_⟩
  · intro f hf; have := project_fields_sub _ _ _ f hf; rwa [hov] at this
  · intro hF
    simp only [Rec.fieldNames]
    rw [project_fields_of_F _ _ _ hF, filterMap_find_names]
    simp [Rec.fieldNames, hov]
  · intro hF
    rw [hF, project_fields_of_X, hov]
  · rw [hm.1]; cases o.source <;> cases o.classification <;> rfl
  · rw [hm.2.2.2]; cases o.source <;> cases o.classification <;> rfl
  · rw [hm.2.1]; cases o.source <;> cases o.classification <;> rfl
  · rw [hm.2.2.1]; cases o.source <;> cases o.classification <;> rfl

/-- `--multi-timestamp`: a record without datetime field passes unchanged; otherwise one record per datetime field,
    each carrying every original field (other than one already called ts / ts_description) with its value, in order,
    after the `ts`, `ts_description` pair, and — as extracted from the current source — the original's metadata. -/
theorem C16_expand {V : Type} (strVal : String → V) (fm : V × V × V) (r : Rec V) :
    let dts := r.fields.filter (fun f => f.1 == "datetime")
    (dts = [] → tsExpand strVal fm r = [r]) ∧
    (tsExpand strVal fm r).length = max 1 dts.length ∧
    (dts ≠ [] → ∀ x ∈ tsExpand strVal fm r,
      x.name = r.name ∧ x.source = r.source ∧ x.classification = r.classification ∧ x.generated = r.generated ∧
      x.fields.drop 2 = r.fields.filter (fun g => g.2.1 != tsField.2 && g.2.1 != tsDescField.2) ∧
      ∃ f ∈ dts, x.fields.take 2 = [(tsField.1, tsField.2, f.2.2), (tsDescField.1, tsDescField.2, strVal f.2.1)]) := by
  intro dts
  have hk : Gen.tsExpandKeepsMetadata = true := by decide
  refine ⟨?_, ?_, ?_⟩
  · intro h
    have h' : List.filter (fun f => f.1 == "datetime") r.fields = [] := h
    simp [tsExpand, tsExpandWith, h']
  · cases h : dts with
    | nil =>
      have h' : List.filter (fun f => f.1 == "datetime") r.fields = [] := h
      simp [tsExpand, tsExpandWith, h']
    | cons a t =>
      have h' : List.filter (fun f => f.1 == "datetime") r.fields = a :: t := h
      simp only [tsExpand, tsExpandWith, h', List.isEmpty_cons, List.length_cons]
      simp only [Bool.false_eq_true, if_false, List.length_map, List.length_cons]
      omega
  · intro hne x hx
    have hne' : (List.filter (fun f => f.1 == "datetime") r.fields).isEmpty = false := by
      cases h : List.filter (fun f => f.1 == "datetime") r.fields with
      | nil => exact absurd h hne
      | cons a t => rfl
    simp only [tsExpand, tsExpandWith, hne', hk, if_true, Bool.false_eq_true, if_false] at hx
    obtain ⟨f, hf, rfl⟩ := List.mem_map.mp hx
    exact ⟨rfl, rfl, rfl, rfl, rfl, f, hf, rfl⟩

/-- URI construction, decided over the extracted mode table: without `-w`, every mode selects its adapter URI and
    the default is the text writer; a field list travels in the query only when the mode's URI has no query of its
    own (the `"&" if … else "?" + query` precedence of the source); `-w` is taken verbatim. -/
theorem C16_uri_modes :
    (∀ row ∈ Gen.modeToUri,
      baseUri { mode := some row.1 } none none = row.2.toList ++ (if hasQuery row.2.toList then ['&'] else ['?'])) ∧
    baseUri {} none none = "text://?".toList ∧
    baseUri { mode := some "csv" } (some "a,b") (some "c") = "csvfile://?fields=a%2Cb&exclude=c".toList ∧
    baseUri { mode := some "jsonlines" } (some "a,b") none = "jsonfile://?descriptors=false&".toList ∧
    (∀ w f x, baseUri { writer := some w, mode := some "csv" } f x = w.toList) := by
  refine ⟨by decide, by decide, by decide, by decide, fun w f x => rfl⟩

/-- `--split`: the URI is wrapped in the split adapter (`split://` for a bare path, `split+scheme://` otherwise) with
    `count` and `suffix-length` added to the query, and `RecordAdapter` recovers from it the user's own URI and
    arguments (examples decided on the model's text functions; the harness compares them with `urlparse`). -/
theorem C16_uri_split :
    splitWrap "out.records".toList 2 2 = "split://out.records?count=2&suffix-length=2".toList ∧
    splitWrap "jsonfile://o.jsonl?descriptors=false".toList 5 3
      = "split+jsonfile://o.jsonl?descriptors=false&count=5&suffix-length=3".toList ∧
    adapterOf (splitWrap "jsonfile://o.jsonl?descriptors=false".toList 5 3)
      = ("split".toList, "jsonfile://o.jsonl".toList,
         [("descriptors".toList, "false".toList), ("count".toList, ['5']), ("suffix-length".toList, ['3'])]) ∧
    adapterOf (splitWrap "/tmp/x/out.records.gz".toList 10 2)
      = ("split".toList, "/tmp/x/out.records.gz".toList, [("count".toList, "10".toList), ("suffix-length".toList, ['2'])]) := by
  decide

/-- `--split` in general: for every writer URI `scheme://path` (scheme without ':' and '+', path without '?' and
    '#') and every COUNT and suffix length, rdump hands `split+scheme://path?count=COUNT&suffix-length=LEN` to
    `RecordWriter`, and `RecordAdapter` takes it apart into the split adapter, the user's own URI — unchanged — and
    exactly these two arguments. -/
theorem C16_uri_split_roundtrip (scheme path : Rdump.Str) (count suffixLen : Nat)
    (hs : ∀ c ∈ scheme, c ≠ ':' ∧ c ≠ '+') (hp : ∀ c ∈ path, c ≠ '?' ∧ c ≠ '#') :
    splitWrap (scheme ++ schemeSep ++ path) count suffixLen
      = "split+".toList ++ scheme ++ schemeSep ++ path ++ ['?'] ++
          ("count".toList ++ ['='] ++ natStr count ++ ['&'] ++ "suffix-length".toList ++ ['='] ++ natStr suffixLen) ∧
    adapterOf (splitWrap (scheme ++ schemeSep ++ path) count suffixLen)
      = ("split".toList, scheme ++ schemeSep ++ path,
         [("count".toList, natStr count), ("suffix-length".toList, natStr suffixLen)]) :=
  splitWrapS_adapter scheme path _ _ hs hp (plain_natStr count).1 (plain_natStr suffixLen).1
    (plain_natStr count).2 (plain_natStr suffixLen).2

-- Non-vacuity --------------------------------------------------------------------------------------------------
namespace C16_nonvacuous
def r (n : Nat) (ts : Nat) : Rec Nat :=
  ⟨"t/a", [("varint", "n", n), ("datetime", "t1", ts), ("string", "s", 7), ("datetime", "t2", ts + 1)], 100, 200, 300⟩
def good : Source (Rec Nat) := ⟨[r 1 10, r 2 20, r 3 30], none⟩
def missing : Source (Rec Nat) := ⟨[], some .io⟩
def truncated : Source (Rec Nat) := ⟨[r 4 40, r 5 50], some .other⟩
def even : Matcher (Rec Nat) ErrKind := fun x => .ok (x.fields.any fun f => f.2.1 == "n" && f.2.2 % 2 == 0)
def opts : Opts Nat := { skip := 1, count := some 2, fields := ["s", "n", "zz"], source := some 9 }
example : (pipeline (fun _ => 0) (0, 0, 0) opts (some even) [missing, good, truncated, missing, good]).written
    = [⟨"t/a", [("string", "s", 7), ("varint", "n", 4)], 9, 200, 300⟩,
       ⟨"t/a", [("string", "s", 7), ("varint", "n", 2)], 9, 200, 300⟩] := by decide
example : ((pipeline (fun _ => 0) (0, 0, 0) { multiTs := true, exclude := ["s"] } none [good]).written.map
    (·.fields.map (·.2.1))).take 2 = [["ts", "ts_description", "n", "t1", "t2"], ["ts", "ts_description", "n", "t1", "t2"]] := by
  decide
example : (pipeline (fun _ => 0) (0, 0, 0) { list := true } none [good, truncated]).listed.length = 1 := by decide
end C16_nonvacuous
