import FlowRecordProofs.Lemmas.Msgpack
import FlowRecordProofs.Lemmas.Framing
import FlowRecordProofs.Lemmas.MsgpackPrefix
import FlowRecord.Model.Stream
/-!
C04 — a damaged stream yields an intact prefix, never altered records. Property theorems only.
Frames are arbitrary byte strings shorter than 2^32 (what a 4-byte length can describe); the theorems hold for
every frame list and every cut position.
-/
open FlowRecord FlowRecord.Msgpack FlowRecord.Stream FlowRecord.Wire

/-- One frame followed by anything: the reader's frame splitter returns exactly that frame's body and the rest. -/
theorem C04_next_frame (body rest : Bytes) (h : body.length < 4294967296) :
    nextFrame (frameBytes body ++ rest) = some (body, rest) :=
  nextFrame_frame body rest h

/-- A stream that ends exactly at a frame boundary splits into exactly the frames written, nothing left over. -/
theorem C04_full_stream (frames : List Bytes) (hw : ∀ f ∈ frames, f.length < 4294967296) :
    splitFrames (streamOf frames).length (streamOf frames) = (frames, []) := by
  have hfuel : frames.length ≤ (streamOf frames).length := by
    induction frames with
    | nil => simp
    | cons f fs ih =>
      have := ih (fun g hg => hw g (by simp [hg]))
      simp only [streamOf, List.flatMap_cons, List.length_append, frameBytes_length, List.length_cons] at this ⊢
      omega
  have := splitFrames_stream frames [] _ hw (Or.inl (by simp)) hfuel
  simpa using this

/-- The prefix theorem: cut the stream at ANY byte position k. What the reader's frame splitter sees is exactly the
    first m frames, complete and unmodified, followed by a partial frame (fewer than 4 length bytes, or a length and
    a body shorter than it) — never a frame that was not written, never an altered one, and the cut bytes are
    accounted for exactly (`take k stream = frames[:m] ++ partial`). -/
theorem C04_cut_prefix (frames : List Bytes) (k : Nat) (hw : ∀ f ∈ frames, f.length < 4294967296) :
    ∃ m p, m ≤ frames.length ∧
      (streamOf frames).take k = streamOf (frames.take m) ++ p ∧
      (IsPartialFrame p ∨ (p = [] ∧ m = frames.length)) ∧
      splitFrames ((streamOf frames).take k).length ((streamOf frames).take k) = (frames.take m, p) := by
  obtain ⟨m, p, hm, ht, hp, _⟩ := take_stream frames k hw
  refine ⟨m, p, hm, ht, hp, ?_⟩
  have hw' : ∀ f ∈ frames.take m, f.length < 4294967296 := fun f hf => hw f (List.mem_of_mem_take hf)
  have hpp : IsPartialFrame p := by
    rcases hp with h | ⟨h, _⟩
    · exact h
    · subst h; exact Or.inl (by simp)
  rw [ht]
  apply splitFrames_stream _ _ _ hw' hpp
  have : (frames.take m).length ≤ (streamOf (frames.take m)).length := by
    generalize frames.take m = fs
    induction fs with
    | nil => simp
    | cons f fs ih =>
      simp only [streamOf, List.flatMap_cons, List.length_append, frameBytes_length, List.length_cons] at ih ⊢
      omega
  simp only [List.length_append]; omega

/-- The reader ends cleanly (EOF) exactly when fewer than four bytes are left: at a frame boundary or inside a
    length prefix. -/
theorem C04_clean_end_iff (rem : Bytes) : nextFrame rem = none ↔ rem.length < 4 := by
  unfold nextFrame
  by_cases h : rem.length < 4 <;> simp [h]

/-- A partial frame is never taken for a complete one: the reader either stops (EOF) or is handed a body shorter than
    the announced length. -/
theorem C04_partial_not_complete (p : Bytes) (hp : IsPartialFrame p) :
    nextFrame p = none ∨ ∃ body rest, nextFrame p = some (body, rest) ∧ body.length < beDec (p.take 4) := by
  rcases hp with h | ⟨n, body, hn, rfl, hb⟩
  · left; simp [nextFrame, h]
  · right
    have hl : ¬ (beEnc 4 n ++ body).length < 4 := by simp
    have e1 : (beEnc 4 n ++ body).take 4 = beEnc 4 n := List.take_left' (beEnc_length 4 _)
    have e2 : (beEnc 4 n ++ body).drop 4 = body := List.drop_left' (beEnc_length 4 _)
    refine ⟨body.take n, body.drop n, ?_, ?_⟩
    · simp [nextFrame, e1, e2, beDec_beEnc 4 n (by omega)]
    · rw [e1, beDec_beEnc 4 n (by omega)]; simp; omega

/-- Every completely written frame decodes to exactly the value that was packed into it (msgpack M1), so a complete
    frame can only yield the record it was written from. -/
theorem C04_complete_frame_decodes (v : MVal) (hw : WF v) : decode (enc v) = .ok v :=
  decode_enc v hw

/-- M5: a frame body that was only partly written never decodes to a value: for every well-formed value (any depth,
    any size class) and EVERY proper prefix of its encoding, the document decoder reports "incomplete input" — so
    the reader raises and yields nothing for the cut frame; it can never yield a partially filled record. -/
theorem C04_truncated_body_rejected (reg : Registry) (v : MVal) (k : Nat) (hw : WF v) (hk : k < (enc v).length) :
    decode ((enc v).take k) = .incomplete ∧ decodeFrame reg ((enc v).take k) = .error .incomplete := by
  have h := decode_take v k hw hk
  exact ⟨h, by simp [decodeFrame, h]⟩

/-- The same at the level of the byte decoder with any amount of fuel that suffices for the complete value. -/
theorem C04_truncated_value_incomplete (v : MVal) (f k : Nat) (hw : WF v) (hf : depth v ≤ f)
    (hk : k < (enc v).length) : dec f ((enc v).take k) = .incomplete :=
  dec_take v f k hw (Or.inl hf) hk

/-- Inst: the facts read off the current source that the model's reader relies on. -/
theorem C04_inst :
    Gen.lenFormatWrite = ">I" ∧ Gen.lenFormatRead = ">I" ∧ Gen.lenPrefixBytes = 4 ∧ Gen.shortLengthIsEof = true ∧
    Gen.headerReadLen = "4 + 2 + len(RECORDSTREAM_MAGIC)" ∧ Gen.headerCheckEndswith = true := by
  decide

-- non-vacuity: a two-frame stream cut inside the second frame
example : splitFrames 100 ((streamOf [[1, 2, 3], [4, 5]]).take 10) = ([[1, 2, 3]], [0, 0, 0]) := by decide
example : IsPartialFrame [0, 0, 0] := Or.inl (by decide)
