import FlowRecordProofs.Lemmas.PackIgnore
import FlowRecordProofs.Lemmas.Msgpack
import FlowRecordProofs.Lemmas.Framing
import FlowRecordProofs.Lemmas.MsgpackPrefix
import FlowRecordProofs.Lemmas.StreamCut
import FlowRecordProofs.Lemmas.StreamExample
import FlowRecordProofs.Lemmas.WriteFault
import FlowRecord.Model.Stream
/-!
C04 — a damaged stream yields an intact prefix, never altered records. Property theorems only.
Frames are arbitrary byte strings shorter than 2^32 (what a 4-byte length can describe); the theorems hold for
every frame list and every cut position.
-/
open FlowRecord FlowRecord.Msgpack FlowRecord.Stream FlowRecord.Wire

/-- One frame followed by anything: the reader's frame splitter returns exactly that frame's body and the rest. -/
theorem C04_next_frame (body rest : Bytes) (h : body.length < 4294967296) :
    nextFrame (frameBytes body ++ rest) = some (body, rest) :=
  nextFrame_frame body rest h

/-- A stream that ends exactly at a frame boundary splits into exactly the frames written, nothing left over. -/
theorem C04_full_stream (frames : List Bytes) (hw : ∀ f ∈ frames, f.length < 4294967296) :
    splitFrames (streamOf frames).length (streamOf frames) = (frames, []) := by
  have hfuel : frames.length ≤ (streamOf frames).length := by
    induction frames with
    | nil => simp
    | cons f fs ih =>
      have := ih (fun g hg => hw g (by simp [hg]))
      simp only [streamOf, List.flatMap_cons, List.length_append, frameBytes_length, List.length_cons] at this ⊢
      omega
  have := splitFrames_stream frames [] _ hw (Or.inl (by simp)) hfuel
  simpa using this

/-- The prefix theorem: cut the stream at ANY byte position k. What the reader's frame splitter sees is exactly the
    first m frames, complete and unmodified, followed by a partial frame (fewer than 4 length bytes, or a length and
    a body shorter than it) — never a frame that was not written, never an altered one, and the cut bytes are
    accounted for exactly (`take k stream = frames[:m] ++ partial`). -/
theorem C04_cut_prefix (frames : List Bytes) (k : Nat) (hw : ∀ f ∈ frames, f.length < 4294967296) :
    ∃ m p, m ≤ frames.length ∧
      (streamOf frames).take k = streamOf (frames.take m) ++ p ∧
      (IsPartialFrame p ∨ (p = [] ∧ m = frames.length)) ∧
      splitFrames ((streamOf frames).take k).length ((streamOf frames).take k) = (frames.take m, p) := by
  obtain ⟨m, p, hm, ht, hp, _⟩ := take_stream frames k hw
  refine ⟨m, p, hm, ht, hp, ?_⟩
  have hw' : ∀ f ∈ frames.take m, f.length < 4294967296 := fun f hf => hw f (List.mem_of_mem_take hf)
  have hpp : IsPartialFrame p := by
    rcases hp with h | ⟨h, _⟩
    · exact h
    · subst h; exact Or.inl (by simp)
  rw [ht]
  apply splitFrames_stream _ _ _ hw' hpp
  have : (frames.take m).length ≤ (streamOf (frames.take m)).length := by
    generalize frames.take m = fs
    induction fs with
    | nil => simp
    | cons f fs ih =>
      simp only [streamOf, List.flatMap_cons, List.length_append, frameBytes_length, List.length_cons] at ih ⊢
      omega
  simp only [List.length_append]; omega

/-- The reader ends cleanly (EOF) exactly when fewer than four bytes are left: at a frame boundary or inside a
    length prefix. -/
theorem C04_clean_end_iff (rem : Bytes) : nextFrame rem = none ↔ rem.length < 4 := by
  unfold nextFrame
  by_cases h : rem.length < 4 <;> simp [h]

/-- A partial frame is never taken for a complete one: the reader either stops (EOF) or is handed a body shorter than
    the announced length. -/
theorem C04_partial_not_complete (p : Bytes) (hp : IsPartialFrame p) :
    nextFrame p = none ∨ ∃ body rest, nextFrame p = some (body, rest) ∧ body.length < beDec (p.take 4) := by
  rcases hp with h | ⟨n, body, hn, rfl, hb⟩
  · left; simp [nextFrame, h]
  · right
    have hl : ¬ (beEnc 4 n ++ body).length < 4 := by simp
    have e1 : (beEnc 4 n ++ body).take 4 = beEnc 4 n := List.take_left' (beEnc_length 4 _)
    have e2 : (beEnc 4 n ++ body).drop 4 = body := List.drop_left' (beEnc_length 4 _)
    refine ⟨body.take n, body.drop n, ?_, ?_⟩
    · simp [nextFrame, e1, e2, beDec_beEnc 4 n (by omega)]
    · rw [e1, beDec_beEnc 4 n (by omega)]; simp; omega

/-- Every completely written frame decodes to exactly the value that was packed into it (msgpack M1), so a complete
    frame can only yield the record it was written from. -/
theorem C04_complete_frame_decodes (v : MVal) (hw : WF v) : decode (enc v) = .ok v :=
  decode_enc v hw

/-- M5: a frame body that was only partly written never decodes to a value: for every well-formed value (any depth,
    any size class) and EVERY proper prefix of its encoding, the document decoder reports "incomplete input" — so
    the reader raises and yields nothing for the cut frame; it can never yield a partially filled record. -/
theorem C04_truncated_body_rejected (reg : Registry) (v : MVal) (k : Nat) (hw : WF v) (hk : k < (enc v).length) :
    decode ((enc v).take k) = .incomplete ∧ decodeFrame reg ((enc v).take k) = .error .incomplete := by
  have h := decode_take v k hw hk
  exact ⟨h, by simp [decodeFrame, h]⟩

/-- The same at the level of the byte decoder with any amount of fuel that suffices for the complete value. -/
theorem C04_truncated_value_incomplete (v : MVal) (f k : Nat) (hw : WF v) (hf : depth v ≤ f)
    (hk : k < (enc v).length) : dec f ((enc v).take k) = .incomplete :=
  dec_take v f k hw (Or.inl hf) hk

/-- Inst: the facts read off the current source that the model's reader relies on. -/
theorem C04_inst :
    Gen.lenFormatWrite = ">I" ∧ Gen.lenFormatRead = ">I" ∧ Gen.lenPrefixBytes = 4 ∧ Gen.shortLengthIsEof = true ∧
    Gen.headerReadLen = "4 + 2 + len(RECORDSTREAM_MAGIC)" ∧ Gen.headerCheckEndswith = true := by
  decide

-- non-vacuity: a two-frame stream cut inside the second frame
example : splitFrames 100 ((streamOf [[1, 2, 3], [4, 5]]).take 10) = ([[1, 2, 3]], [0, 0, 0]) := by decide
example : IsPartialFrame [0, 0, 0] := Or.inl (by decide)

/-- **The prefix theorem at the level of records.** Take ANY admissible history of records (as in
    `C01_stream_roundtrip`: any number of records, any descriptors, nesting to any depth) written by a fresh writer,
    and cut the byte stream at ANY position `k` (a crash while writing, a truncated copy). Then the reader, run over
    the first `k` bytes, yields exactly the first `n` records written — same order, each with its own descriptor, field
    for field the values written; never a record that was not written, never an altered or partly filled one — where
    `n` is precisely the number of records whose frames lie completely inside the first `k` bytes (the output of the
    first `n` records fits into `k` bytes, that of the first `n + 1` does not: no complete record is skipped). After
    them the reader stops: cleanly (EOF) when the cut is at a frame boundary or inside a 4-byte length prefix, with
    "incomplete input" when it is inside a frame body, with "not a record stream" when it is inside the header frame.
    At or beyond the end of the stream all records come out and the end is clean. -/
theorem C04_records_prefix (hashOf : Utf8.PyStr → List (Utf8.PyStr × Utf8.PyStr) → Nat) (o : PV) (os : List PV)
    (st' : WState) (frames : List Bytes) (k : Nat)
    (hw : writeAll WState.init (o :: os) = some (st', frames))
    (hok : HistOK hashOf [] (o :: os)) (hsz : ∀ b ∈ frames, b.length < 4294967296) :
    ∃ n e, n ≤ (o :: os).length ∧
      readAll hashOf ((streamOf frames).take k) = (rvOfList ((o :: os).take n), e) ∧
      (e = End.eof ∨ e = End.error .incomplete ∨ (e = End.notAStream ∧ n = 0 ∧ k < headerLen)) ∧
      ((streamOf frames).length ≤ k → n = (o :: os).length ∧ e = End.eof) ∧
      (0 < n → ∀ stn fn, writeAll WState.init ((o :: os).take n) = some (stn, fn) → (streamOf fn).length ≤ k) ∧
      (n < (o :: os).length → ∀ stn fn, writeAll WState.init ((o :: os).take (n + 1)) = some (stn, fn) →
        k < (streamOf fn).length) :=
  readAll_cut hashOf o os st' frames k hw hok hsz

/-- **Failing or short write.** Split the stream into the calls the writer makes on its file object in ANY way
    (`calls.flatten = stream`; the implementation's own chunking - a 4-byte length, then the blob, per frame - is
    `writeCalls`, see `C04_writeCalls`). If call number `i` accepts only `j` of its bytes (`j = 0`: the call failed
    outright, `i` past the last call: nothing failed) and nothing is written afterwards, reading what is on disk yields
    exactly the first `n` records written, unaltered and in order, then ends cleanly, with "incomplete input" or -
    inside the header frame - with "not a record stream"; `n` counts exactly the records whose frames are completely
    on disk. -/
theorem C04_failing_or_short_write (hashOf : Utf8.PyStr → List (Utf8.PyStr × Utf8.PyStr) → Nat) (o : PV) (os : List PV)
    (st' : WState) (frames : List Bytes) (calls : List Bytes) (i j : Nat)
    (hw : writeAll WState.init (o :: os) = some (st', frames))
    (hcalls : calls.flatten = streamOf frames)
    (hok : HistOK hashOf [] (o :: os)) (hsz : ∀ b ∈ frames, b.length < 4294967296) :
    ∃ n e, n ≤ (o :: os).length ∧
      readAll hashOf (diskAfterFault calls i j) = (rvOfList ((o :: os).take n), e) ∧
      (e = End.eof ∨ e = End.error .incomplete ∨ (e = End.notAStream ∧ n = 0)) ∧
      (0 < n → ∀ stn fn, writeAll WState.init ((o :: os).take n) = some (stn, fn) →
        (streamOf fn).length ≤ (diskAfterFault calls i j).length) ∧
      (n < (o :: os).length → ∀ stn fn, writeAll WState.init ((o :: os).take (n + 1)) = some (stn, fn) →
        (diskAfterFault calls i j).length < (streamOf fn).length) := by
  rw [diskAfterFault_prefix, hcalls]
  generalize ((calls.take i).flatten).length + min j ((calls[i]?).getD []).length = k
  obtain ⟨n, e, hn, hr, he, hfull, hfit, hnext⟩ := C04_records_prefix hashOf o os st' frames k hw hok hsz
  refine ⟨n, e, hn, hr, ?_, ?_, ?_⟩
  · rcases he with h | h | ⟨h, h0, _⟩
    · exact Or.inl h
    · exact Or.inr (Or.inl h)
    · exact Or.inr (Or.inr ⟨h, h0⟩)
  · intro hpos stn fn hwn
    have h1 := hfit hpos stn fn hwn
    by_cases hk : k ≤ (streamOf frames).length
    · rw [List.length_take, Nat.min_eq_left hk]; exact h1
    · -- the cut is beyond the end: everything is on disk, and the first n records are a prefix of everything
      have hk' : (streamOf frames).length ≤ k := by omega
      obtain ⟨hnall, _⟩ := hfull hk'
      rw [List.take_of_length_le hk']
      rw [hnall, List.take_length] at hwn
      rw [hw] at hwn
      cases hwn
      exact Nat.le_refl _
  · intro hlt stn fn hwn
    have h1 := hnext hlt stn fn hwn
    rw [List.length_take]
    exact Nat.lt_of_le_of_lt (Nat.min_le_left _ _) h1

/-- the implementation's chunking into write calls (two per frame) is one admissible chunking -/
theorem C04_writeCalls (frames : List Bytes) : (writeCalls frames).flatten = streamOf frames :=
  writeCalls_flatten frames

/-- The same for a writer that is appending (header already written, any registry): frames after the header. -/
theorem C04_records_prefix_continued (hashOf : Utf8.PyStr → List (Utf8.PyStr × Utf8.PyStr) → Nat) (objs : List PV)
    (st st' : WState) (frames : List Bytes) (fuel k : Nat)
    (hw : writeAll st objs = some (st', frames)) (hhdr : st.headerWritten = true)
    (hok : HistOK hashOf st.registry objs) (hsz : ∀ b ∈ frames, b.length < 4294967296) :
    ∃ n e, n ≤ objs.length ∧ (e = End.eof ∨ e = End.error .incomplete) ∧
      readFramesH hashOf (fuel + frames.length + 1) st.registry ((streamOf frames).take k) =
        (rvOfList (objs.take n), e) ∧
      ((streamOf frames).length ≤ k → n = objs.length ∧ e = End.eof) ∧
      (∃ stn fn, writeAll st (objs.take n) = some (stn, fn) ∧ (streamOf fn).length ≤ k) ∧
      (n < objs.length → ∃ stn fn, writeAll st (objs.take (n + 1)) = some (stn, fn) ∧ k < (streamOf fn).length) :=
  read_cut_writeAll hashOf objs st st' frames fuel k hw hhdr hok hsz

/-- A stream cut inside its header frame is refused ("not a record stream"), for every cut position. -/
theorem C04_header_cut (k : Nat) (hk : k < headerLen) : readHeader ((frameBytes magicBody).take k) = none :=
  readHeader_cut k hk

-- non-vacuity of C04_records_prefix: a concrete two-record history meets every hypothesis (see Lemmas/StreamExample)
example : (writeAll WState.init [StreamExample.o1, StreamExample.o2]).isSome = true := by rfl
example : ∀ st' frames, writeAll WState.init [StreamExample.o1, StreamExample.o2] = some (st', frames) →
    (∀ b ∈ frames, b.length < 4294967296) →
    ∃ n e, n ≤ 2 ∧ readAll StreamExample.h ((streamOf frames).take 80) =
      (rvOfList ([StreamExample.o1, StreamExample.o2].take n), e) :=
  fun st' frames hw hsz =>
    let ⟨n, e, hn, hr, _⟩ := C04_records_prefix StreamExample.h _ _ st' frames 80 hw StreamExample.hist hsz
    ⟨n, e, hn, hr⟩

-- non-vacuity of C04_failing_or_short_write: the second call (the header blob) of a two-frame stream accepts 3 bytes
example : diskAfterFault (writeCalls [[1, 2, 3, 4, 5], [6]]) 1 3 = [0, 0, 0, 5, 1, 2, 3] := by decide
example : diskAfterFault (writeCalls [[1, 2], [6]]) 9 0 = streamOf [[1, 2], [6]] := by decide


/-- `RecordStreamReader.read` in the current source is the frame reader the cut model (`Stream.decStep`) was written
    from: one read of the 4-byte length prefix (short = end of file), ONE read of exactly `size` bytes for the body, the
    body handed to the unpacker as it arrived - no chunking, no reuse of a buffer, nothing kept between frames. -/
theorem C04_frame_read_is_the_modelled_one :
    Gen.readerReadBody = ["d = self.fp.read(4)", "if len(d) != 4:", "  raise EOFError()",
      "size = struct.unpack('>I', d)[0]", "d = self.fp.read(size)", "return self.packer.unpack(d)"] := by
  decide +kernel

/-- THE COMPARISON-IGNORE CONFIGURATION CONCERNS == AND hash() ONLY: whatever configuration is in force
    (FLOW_RECORD_IGNORE, `set_ignored_fields_for_comparison`, a `with ignore_fields_for_comparison(...)` block around a
    de-duplicating producer), the frames a writer emits hold complete records: the packer asks `Record._pack` to leave out nothing.
    Premises: the regenerated source facts (`Gen.recordPackReadsGlobalIgnore`, `recordPackExcludedDefault`,
    `packerPassesExcluded`). -/
theorem C04_ignore_configuration_never_reaches_the_writer (globalIg : List (List Nat))
    (names : List (List Nat)) {α : Type} (vals : List α) (h : names.length = vals.length) :
    FlowRecord.Equality.packerExcluded globalIg = [] ∧
    FlowRecord.Equality.keep (FlowRecord.Equality.packerExcluded globalIg) names vals = vals := by
  refine ⟨FlowRecord.Equality.packerExcluded_nil globalIg, ?_⟩
  rw [FlowRecord.Equality.packerExcluded_nil globalIg]
  exact FlowRecord.Equality.keep_nil names vals h
