import FlowRecordProofs.Lemmas.Coerce
/-!
C05 — record fields always hold values of their declared type.
Property theorems only, about the transcription of the field-type constructors and of the record object in
`Model/Coerce.lean`. Every input carries the answers of CPython's builtins / stdlib as annotations; the theorems
quantify over ALL inputs including all annotations, i.e. they hold whatever those libraries answer.
-/
open FlowRecord FlowRecord.Coerce
open FlowRecord.Descriptor (cps)

/-- Every constructor — scalar or typed list, any input of any kind — returns, when it returns at all, a value of the
    declared class; the elements of a typed list are of the element class. -/
theorem C05_constructor_typed (t : FType) (x : Inp) (v : FVal) (h : coerce t x = .ok v) : hasType t v = true :=
  coerce_hasType t x v h

/-- Construction: a record that comes into existence is well typed (each slot unset / its documented default / a
    value of the declared class), whatever the arguments. -/
theorem C05_construct_typed (types : List (Str × FType)) (args : List Inp) (r : Record)
    (h : construct types args = .ok r) : wellTyped r = true := by
  unfold construct at h
  split at h
  · cases h
  · cases hi : initSlots types args with
    | error e => simp [hi, Except.map] at h
    | ok vs =>
      simp [hi, Except.map] at h
      subst h
      exact initSlots_ok types args vs hi

/-- INVARIANT: every operation (attribute assignment, `_replace`) on a well-typed record leaves a well-typed
    record — whether it succeeds or is refused. -/
theorem C05_inv (r : Record) (op : Op) (h : wellTyped r = true) : wellTyped (step r op).1 = true := by
  cases op with
  | assign k v =>
    simp only [step]
    cases ha : assign r k v with
    | error e => exact h
    | ok r' =>
      simp only
      unfold assign at ha
      split at ha
      · cases ha
      · rename_i i hi
        split at ha
        · simp at ha; subst ha
          unfold wellTyped at h ⊢
          cases ht : r.types[i]? with
          | none =>
            -- index beyond the slot list cannot come out of `findIdx?`
            have := List.findIdx?_eq_some_iff_getElem.mp hi
            obtain ⟨hlt, -⟩ := this
            simp at ht
            omega
          | some p => exact slotsOk_set r.types r.vals i p.1 p.2 .unset h (by simp [ht]) rfl
        · split at ha
          · cases ha
          · rename_i k' t ht
            cases hc : coerce t v with
            | error e => simp [hc, Except.map] at ha
            | ok fv =>
              simp [hc, Except.map] at ha
              subst ha
              unfold wellTyped at h ⊢
              exact slotsOk_set r.types r.vals i k' t fv h ht
                (okVal_of_hasType t fv (coerce_hasType t _ fv hc))
  | replace kvs =>
    simp only [step]
    cases ha : replace r kvs with
    | error e => exact h
    | ok r' =>
      simp only
      unfold replace at ha
      obtain ⟨vs, hvs, ha⟩ := bind_ok _ _ _ ha
      split at ha
      · simp [throw, throwThe, MonadExceptOf.throw, bind, Except.bind] at ha
      · simp [pure, Except.pure] at ha
        subst ha
        exact replaceSlots_ok kvs r.types r.vals vs h hvs

/-- … lifted to every history: from a well-typed record, after ANY sequence of operations (successful or refused, of
    any length), the record is well typed. Together with `C05_construct_typed`: every reachable record is. -/
theorem C05_reachable (r : Record) (ops : List Op) (h : wellTyped r = true) : wellTyped (run r ops) = true := by
  induction ops generalizing r with
  | nil => exact h
  | cons op ops ih => exact ih (step r op).1 (C05_inv r op h)

/-- A refused operation leaves the record exactly as it was. -/
theorem C05_failed_assign_unchanged (r : Record) (op : Op) (e : Err) (h : (step r op).2 = some e) :
    (step r op).1 = r := by
  cases op with
  | assign k v =>
    simp only [step] at h ⊢
    cases ha : assign r k v <;> simp [ha] at h ⊢
  | replace kvs =>
    simp only [step] at h ⊢
    cases ha : replace r kvs <;> simp [ha] at h ⊢

/-- `__setattr__` rule: `None` is stored as it is, without any conversion, into any slot; a name that is not a slot is
    refused; the record's other slots are never touched by an assignment. -/
theorem C05_setattr_rule (r : Record) (k : Str) (a : Ann) :
    (slotIndex r k = Option.none → ∀ v, assign r k v = .error .attributeError) ∧
    (∀ i, slotIndex r k = some i → assign r k (.none a) = .ok { r with vals := r.vals.set i .unset }) ∧
    (∀ v r', assign r k v = .ok r' → r'.types = r.types ∧
      ∃ i fv, slotIndex r k = some i ∧ r'.vals = r.vals.set i fv) := by
  refine ⟨?_, ?_, ?_⟩
  · intro h v; simp [assign, h]
  · intro i h; simp [assign, h]
  · intro v r' h
    unfold assign at h
    split at h
    · cases h
    · rename_i i hi
      split at h
      · simp at h; subst h; exact ⟨rfl, i, .unset, hi, rfl⟩
      · split at h
        · cases h
        · rename_i k' t ht
          cases hc : coerce t v with
          | error e => simp [hc, Except.map] at h
          | ok fv => simp [hc, Except.map] at h; subst h; exact ⟨rfl, i, fv, hi, rfl⟩

/-- EXACT BOUNDARIES over all of ℤ (any annotations): an int is accepted by uint16 / uint32 / the port types iff it
    lies within the bounds extracted from the source; by boolean iff it is 0 or 1. -/
theorem C05_boundaries (n : Int) (a : Ann) :
    ((∃ v, coerce (.scalar (.uint .uint16)) (.num (.int n) a) = .ok v) ↔ Gen.uint16Min ≤ n ∧ n ≤ Gen.uint16Max) ∧
    ((∃ v, coerce (.scalar (.uint .port)) (.num (.int n) a) = .ok v) ↔ Gen.uint16Min ≤ n ∧ n ≤ Gen.uint16Max) ∧
    ((∃ v, coerce (.scalar (.uint .uint32)) (.num (.int n) a) = .ok v) ↔ Gen.uint32Min ≤ n ∧ n ≤ Gen.uint32Max) ∧
    ((∃ v, coerce (.scalar .boolean) (.num (.int n) a) = .ok v) ↔ n = 0 ∨ n = 1) := by
  have hu : ∀ c lo hi fr, uBounds c = (lo, hi, fr) →
      ((∃ v, coerce (.scalar (.uint c)) (.num (.int n) a) = .ok v) ↔ lo ≤ n ∧ n ≤ hi) := by
    intro c lo hi fr hb
    simp only [coerce, coerceBT, intNew, inRange, hb, bind, Except.bind, pure, Except.pure]
    by_cases h1 : lo ≤ n <;> by_cases h2 : n ≤ hi <;>
      simp [h1, h2, throw, throwThe, MonadExceptOf.throw]
  refine ⟨hu .uint16 _ _ _ rfl, hu .port _ _ _ rfl, hu .uint32 _ _ _ rfl, ?_⟩
  simp only [coerce, coerceBT, intNew, inRange, bind, Except.bind, pure, Except.pure, Gen.booleanMin, Gen.booleanMax]
  by_cases h1 : (0 : Int) ≤ n <;> by_cases h2 : n ≤ 1 <;>
    simp [h1, h2, throw, throwThe, MonadExceptOf.throw] <;> omega

/-- … instantiated at the constants of the current source: 0..65535, 0..4294967295, 0..1; uint16/uint32 do not test
    for fractions (so `uint16(3.7)` is accepted with truncation, by design of `int.__new__`), boolean does. -/
theorem C05_bounds_inst :
    Gen.uint16Min = 0 ∧ Gen.uint16Max = 65535 ∧ Gen.uint32Min = 0 ∧ Gen.uint32Max = 4294967295 ∧
    Gen.booleanMin = 0 ∧ Gen.booleanMax = 1 ∧ Gen.uint16RejectsFractions = false ∧
    Gen.uint32RejectsFractions = false ∧ Gen.booleanRejectsFractions = true := by decide

/-- A fractional value is never a boolean (the repaired defect): a finite float p/q is accepted iff it is 0 or 1. -/
theorem C05_boolean_fraction (p : Int) (q : Nat) (hq : 0 < q) (a : Ann) :
    (∃ v, coerce (.scalar .boolean) (.num (.rat p q) a) = .ok v) ↔ p = 0 ∨ p = q := by
  have hfr : Gen.booleanRejectsFractions = true := rfl
  simp only [coerce, coerceBT, intNew, inRange, bind, Except.bind, pure, Except.pure, Gen.booleanMin, Gen.booleanMax, hfr]
  constructor
  · rintro ⟨v, hv⟩
    have hA : 0 ≤ p ∧ p ≤ (q : Int) ∧ p % (q : Int) = 0 := by
      by_cases h1 : 0 ≤ p <;> by_cases h2 : p ≤ (q : Int) <;> by_cases h3 : p % (q : Int) = 0 <;>
        simp_all [throw, throwThe, MonadExceptOf.throw]
    obtain ⟨h1, h2, h3⟩ := hA
    -- 0 ≤ p ≤ q and q ∣ p
    obtain ⟨k, hk⟩ := Int.dvd_of_emod_eq_zero h3
    have hq' : (0 : Int) < q := by exact_mod_cast hq
    have hk0 : 0 ≤ k := by
      by_cases hneg : k < 0
      · have h' : k ≤ -1 := by omega
        have : (q : Int) * k ≤ (q : Int) * (-1) := Int.mul_le_mul_of_nonneg_left h' (by omega)
        omega
      · omega
    have hk1 : k ≤ 1 := by
      by_cases hgt : 1 < k
      · have h' : 2 ≤ k := by omega
        have : (q : Int) * 2 ≤ (q : Int) * k := Int.mul_le_mul_of_nonneg_left h' (by omega)
        omega
      · omega
    have : k = 0 ∨ k = 1 := by omega
    rcases this with rfl | rfl
    · left; simpa using hk
    · right; simpa using hk
  · rintro (rfl | rfl)
    · simp
    · have : (q : Int) % (q : Int) = 0 := Int.emod_self
      simp [this]

/-- A `bytes` field accepts ONLY bytes — and keeps them unchanged. -/
theorem C05_bytes_only_bytes (x : Inp) (v : FVal) (h : coerce (.scalar .bytes) x = .ok v) :
    ∃ b a e, x = .bytes b a e ∧ v = .bytes b := by
  simp only [coerce, coerceBT] at h
  split at h
  · rename_i b a e
    simp at h; exact ⟨b, a, e, rfl, h.symm⟩
  · split at h <;> cases h

/-- Conversions on the way in: a naive datetime becomes UTC with the same wall clock, an aware one keeps its offset;
    a str is kept as it is; typed lists and digests default to their empty value, every other type to None; an empty
    / falsy argument makes an empty typed list. -/
theorem C05_conversions (wall : List Int) (off : Int) (a : Ann) (s : Str) (e : List Inp) (t : BT) :
    coerce (.scalar .datetime) (.dt wall Option.none a) = .ok (.dt wall 0) ∧
    coerce (.scalar .datetime) (.dt wall (some off) a) = .ok (.dt wall off) ∧
    coerce (.scalar .string) (.str s a e) = .ok (.str .string s) ∧
    initSlot (.list t) (.none a) = .ok (.typedList t []) ∧
    initSlot (.scalar .digest) (.none a) = .ok (.digest Option.none Option.none Option.none) ∧
    coerce (.list t) (.list [] a) = .ok (.typedList t []) ∧ coerce (.list t) (.str [] a e) = .ok (.typedList t []) := by
  simp [coerce, coerceBT, initSlot, Coerce.default, strNew, truthy, bind, Except.bind, pure, Except.pure]

/-- A digest from a 3-sequence is accepted only if every given part is a str of hex digits of exactly the digest's
    length (32 / 40 / 64). -/
theorem C05_digest_validated (a b c : Inp) (an : Ann) (m s1 s2 : Option Str)
    (h : coerce (.scalar .digest) (.tuple [a, b, c] an) = .ok (.digest m s1 s2)) :
    (∀ x, m = some x → isHexStr x = true ∧ x.length = 32) ∧ (∀ x, s1 = some x → isHexStr x = true ∧ x.length = 40) ∧
    (∀ x, s2 = some x → isHexStr x = true ∧ x.length = 64) := by
  have part : ∀ (n : Nat) (i : Inp) (r : Option Str), digestPart n i = .ok r →
      ∀ x, r = some x → isHexStr x = true ∧ x.length = 2 * n := by
    intro n i r hp x hx
    subst hx
    cases i <;> simp only [digestPart] at hp <;> (try cases hp)
    rename_i s _ _
    split at hp
    · cases hp
    · split at hp
      · cases hp
      · split at hp
        · cases hp
        · rename_i h1 h2 h3
          simp at hp; subst hp
          simp only [Bool.or_eq_true, bne_iff_ne, ne_eq, Bool.not_eq_true', not_or, Decidable.not_not] at h2 h3
          exact ⟨by simpa using h2.2, h3⟩
  simp only [coerce, coerceBT] at h
  obtain ⟨m', hm, h⟩ := bind_ok _ _ _ h
  obtain ⟨s1', h1, h⟩ := bind_ok _ _ _ h
  obtain ⟨s2', h2, h⟩ := bind_ok _ _ _ h
  simp [pure, Except.pure] at h
  obtain ⟨rfl, rfl, rfl⟩ := h
  exact ⟨part 16 a _ hm, part 20 b _ h1, part 32 c _ h2⟩

/-- Full-strength claim "a record that accepted all its assignments can always be serialised". -/
def C05_serialisable_statement : Prop := ∀ r : Record, wellTyped r = true → serialisable r = true

/-- It is false of model and code: `string('\ud800')` — a lone surrogate that is not a surrogate escape — is accepted
    (the record is constructed and well typed) but cannot be serialised. Replayed on the real code by the harness. -/
theorem C05_serialisable_counterexample : ¬ C05_serialisable_statement := by
  intro hs
  have hc : construct [(cps "s", .scalar .string)] [.str [0xD800] [] []] =
      .ok ⟨[(cps "s", .scalar .string)], [.str .string [0xD800]]⟩ := by
    simp [construct, initSlots, initSlot, coerce, coerceBT, strNew, bind, Except.bind, pure, Except.pure, Except.map]
  have := hs _ (C05_construct_typed _ _ _ hc)
  revert this; decide

/-- … and it holds for every record in which every text is encodable and no value is of the `net.ipv4.Subnet` class
    (which has no `_pack`): those are the only two obstacles. -/
theorem C05_serialisable_partial (r : Record)
    (htext : ∀ v ∈ r.vals, (∀ c s, v = .str c s → encodable s = true) ∧
      (∀ t xs, v = .typedList t xs → ∀ e ∈ xs, (∀ c s, e = .str c s → encodable s = true) ∧ ∀ l, e ≠ .obj .ipv4Subnet l) ∧
      (∀ d xs, v = .plainList d xs → inpsText xs = true) ∧ (∀ x, v = .raw x → inpText x = true) ∧
      ∀ l, v ≠ .obj .ipv4Subnet l) :
    serialisable r = true := by
  unfold serialisable
  apply List.all_eq_true.mpr
  intro v hv
  obtain ⟨h1, h2, h3, h4, h5⟩ := htext v hv
  cases v with
  | str c s => exact h1 c s rfl
  | typedList t xs =>
    simp only [packable]
    apply List.all_eq_true.mpr
    intro e he
    obtain ⟨e1, e2⟩ := h2 t xs rfl e he
    cases e with
    | str c s => exact e1 c s rfl
    | obj c l =>
      cases c <;> first | rfl | exact absurd rfl (e2 l)
    | _ => rfl
  | plainList d xs => exact h3 d xs rfl
  | raw x => exact h4 x rfl
  | obj c l =>
    cases c <;> first | rfl | exact absurd rfl (h5 l)
  | _ => rfl

/-- The model covers the whole whitelist, and the source has the `__setattr__` tests and `default()` overrides the
    model transcribes (re-decided against the working tree on every run). -/
theorem C05_source_shape :
    (∀ w ∈ Gen.WHITELIST, (btOfName w).isSome = true) ∧
    Gen.setattrOuterTest = "v is not None and k in self.__slots__ and field_type" ∧
    Gen.setattrInnerTest = "not isinstance(v, field_type)" ∧ Gen.setattrCoercion = "v = field_type(v)" ∧
    Gen.setattrStore = "super().__setattr__(k, v)" ∧ Gen.typesOverridingDefault = ["typedlist", "digest"] := by
  refine ⟨by decide, rfl, rfl, rfl, rfl, rfl⟩

-- Non-vacuity: concrete histories with accepted and refused steps.
namespace C05_nonvacuous
def types : List (Str × FType) := [(cps "a", .scalar .boolean), (cps "b", .scalar (.uint .uint16)), (cps "l", .list (.uint .uint16))]
def r0 : Record := ⟨types, [.boolean true, .uint .uint16 5 (.int 5), .typedList (.uint .uint16) []]⟩
example : construct types [.num (.bool true) [], .num (.int 5) [], .none []] = .ok r0 := rfl
example : wellTyped r0 = true := by decide
example : (step r0 (.assign (cps "a") (.num (.rat 1 2) []))).2 = some .valueError := by decide
example : (step r0 (.assign (cps "b") (.num (.int 65536) []))).2 = some .valueError := by decide
example : (step r0 (.assign (cps "b") (.num (.int 65535) []))).1.vals =
    [.boolean true, .uint .uint16 65535 (.int 65535), .typedList (.uint .uint16) []] := rfl
example : (step r0 (.assign (cps "b") (.num (.rat 37 10) []))).1.vals =
    [.boolean true, .uint .uint16 3 (.rat 37 10), .typedList (.uint .uint16) []] := rfl
example : (step r0 (.assign (cps "zz") (.num (.int 1) []))).2 = some .attributeError := by decide
example : (step r0 (.assign (cps "l") (.list [.num (.int 1) [], .num (.int 70000) []] []))).2 = some .valueError := by decide
example : (step r0 (.assign (cps "b") (.str (cps "12") [("int", .int 12)] []))).2 = some .typeError := by decide
end C05_nonvacuous


/-- A REFUSED ASSIGNMENT CHANGES NOTHING, also one level down: assigning to one hash of a digest that sits in a record
    (`rec.d.md5 = x`) either stores the accepted value or raises and leaves the hash as it was - for every input and
    every previous content. (Before fix 7732112 a hex text of the wrong length was stored and then refused; the
    premise is the regenerated source fact that the setters check before they assign.) -/
theorem C05_refused_digest_assignment_changes_nothing (n : Nat) (old : Option (List Nat))
    (x : FlowRecord.Coerce.Inp) :
    (∀ v, FlowRecord.Coerce.digestPart n x = .ok v → FlowRecord.Coerce.digestAssign n old x = (v, none)) ∧
    (∀ e, FlowRecord.Coerce.digestPart n x = .error e → FlowRecord.Coerce.digestAssign n old x = (old, some e)) := by
  have hgen : FlowRecord.Gen.digestSetterChecksFirst = true := by decide
  constructor
  · intro v h; simp [FlowRecord.Coerce.digestAssign, h]
  · intro e h; simp [FlowRecord.Coerce.digestAssign, h, hgen]
