import FlowRecordProofs.Lemmas.Csv
import FlowRecordProofs.Lemmas.TextOut
/-!
C20 — text-oriented writers render every record completely.
Property theorems only (helper lemmas: `Lemmas/Csv.lean`, `Lemmas/TextOut.lean`).

`writeRow`/`parse` model CPython 3.12's `csv.writer`/`csv.reader` (excel dialect, QUOTE_MINIMAL) and are validated
against the `csv` module by harness/props/C20.py; per-type `str`/`repr` of values are inputs of the model
(hypothesis `CsvLaws`/CPython in the harness' TRUSTED list), so every theorem below is about *arbitrary* cell text.
-/
open FlowRecord FlowRecord.Csv FlowRecord.TextOut

/-- CSV_roundtrip. For ALL rows of arbitrary cells (any code points, any lengths, incl. empty rows and the lone
    empty cell), every delimiter that is not the quote char or a line break, and every line terminator among
    `\r\n`, `\n`, `\r` such that every CR/LF occurring in a cell is a character of the terminator: a standard
    CSV parser reading what `csv.writer` wrote recovers exactly the rows, without error. -/
theorem C20_csv_roundtrip (d : Ch) (hd : DelimOk d) (lt : List Ch) (hlt : LtOk lt) (rows : List Row)
    (hsafe : ∀ row ∈ rows, ∀ c ∈ row, SafeCell lt c) :
    parse d (writeRows d lt rows) = (rows, false) := by
  have hb := run_writeRows d hd lt hlt rows (clean []) [] (Or.inl rfl) hsafe
  obtain ⟨h1, h2⟩ := finish_between lt _ _ hb
  simp [parse, h1, h2]

/-- The property as C20 states it for the CSV writer: for each of the documented line terminators and whatever
    characters the cells contain, a standard parser recovers the cells exactly. -/
def C20_csv_statement : Prop :=
  ∀ lt : List Ch, LtOk lt → ∀ rows : List Row, parse COMMA (writeRows COMMA lt rows) = (rows, false)

/-- The full statement is FALSE of the model (and of the code, replayed by the harness): with the documented
    option `lineterminator=\n` the cell `a\rb` is written bare (CPython quotes only characters of the configured
    terminator) and the parser splits the row in two. -/
theorem C20_csv_counterexample : ¬ C20_csv_statement := by
  intro h
  have := h [LF] (Or.inr (Or.inl rfl)) [[[97, 13, 98]]]
  revert this
  decide

/-- What does hold, with exactly the finding's signature excluded: with the default terminator `\r\n` every row
    list round-trips; with `\n` (resp. `\r`) every row list whose cells contain no `\r` (resp. `\n`) does. -/
theorem C20_csv_partial (lt : List Ch) (hlt : LtOk lt) (rows : List Row)
    (h : lt = [CR, LF] ∨ ∀ row ∈ rows, ∀ c ∈ row, ∀ x ∈ c, (x = CR ∨ x = LF) → x ∈ lt) :
    parse COMMA (writeRows COMMA lt rows) = (rows, false) := by
  apply C20_csv_roundtrip COMMA ⟨by decide, by decide, by decide⟩ lt hlt rows
  rcases h with h | h
  · subst h
    intro row _ c _ x _ hx
    rcases hx with hx | hx <;> subst hx <;> simp
  · exact h

/-- Header on descriptor change: for every record sequence the rows the CSV writer emits are, per maximal run of
    records of one descriptor, a header row of the selected field names (taken from the run's first record) followed
    by one row per record; the runs partition the sequence in order, are non-empty, uniform and maximal. -/
theorem C20_csv_structure (sel : Sel) (recs : List Rec) :
    csvRows sel none recs = (runs recs).flatMap (runRows sel) ∧
    (runs recs).flatten = recs ∧
    (∀ g ∈ runs recs, g ≠ [] ∧ ∀ a ∈ g, ∀ b ∈ g, a.desc = b.desc) ∧
    AdjDiff (runs recs) :=
  ⟨csvRows_runs sel recs, runs_flatten recs,
   fun g hg => ⟨runs_ne_nil recs g hg, runs_uniform recs g hg⟩, runs_adjDiff recs⟩

/-- The file `CsvfileWriter` writes with its default line terminator (as extracted from the source), read by a
    standard parser, is exactly header + rows per run — for all records, whatever text their values have. -/
theorem C20_csv_file_default (sel : Sel) (recs : List Rec) :
    parse COMMA (csvFile sel none recs) = ((runs recs).flatMap (runRows sel), false) := by
  have hlt : lineTerminator none = [CR, LF] := by decide
  unfold csvFile
  rw [hlt, C20_csv_partial [CR, LF] (Or.inl rfl) _ (Or.inl rfl), csvRows_runs]

/-- With another accepted terminator the same holds whenever no selected value (or field name) contains a line-break
    character foreign to the terminator. -/
theorem C20_csv_file (sel : Sel) (lt : List Ch) (hlt : LtOk lt) (recs : List Rec)
    (h : ∀ row ∈ csvRows sel none recs, ∀ c ∈ row, SafeCell lt c) :
    parse COMMA (writeRows COMMA lt (csvRows sel none recs)) = ((runs recs).flatMap (runRows sel), false) := by
  rw [C20_csv_partial lt hlt _ (Or.inr h), csvRows_runs]

/-- Field selection: without `fields` the selected entries are the slots (declared, then reserved) minus `exclude`,
    in slot order; every selected entry is a slot of the record and not excluded — no field is invented or duplicated
    by the header/row pair (header and cells come from the same selection, so they have equal length). -/
theorem C20_asdict (sel : Sel) (r : Rec) :
    (header sel r).length = (cells sel r).length ∧
    (asdict none sel.exclude r.slots = r.slots.filter (fun p => !sel.exclude.contains p.1)) ∧
    (∀ p ∈ asdict sel.fields sel.exclude r.slots, p ∈ r.slots ∧ sel.exclude.contains p.1 = false) := by
  refine ⟨by simp [header, cells], rfl, ?_⟩
  intro p hp
  unfold asdict at hp
  split at hp
  · simp only [List.mem_filterMap] at hp
    obtain ⟨k, _, hk⟩ := hp
    split at hk
    · rename_i v hv
      split at hk
      · cases hk
      · rename_i hex
        cases hk
        refine ⟨?_, by simpa using hex⟩
        unfold lookup at hv
        cases hf : r.slots.find? (fun q => q.1 == k) with
        | none => rw [hf] at hv; cases hv
        | some q =>
          rw [hf] at hv
          have hq := List.find?_some hf
          have hmem := List.mem_of_find?_eq_some hf
          simp only [Option.map_some, Option.some.injEq] at hv
          have hk : q.1 = k := by simpa using hq
          have : q = (k, v) := by rw [← hk, ← hv]
          rw [← this]; exact hmem
    · cases hk
  · simp only [List.mem_filter, Bool.not_eq_true'] at hp
    exact hp

/-- CSV files read back with the same text values: for every delimiter the sniffer may find, a file holding a header
    of distinct field names (none starting with `_`) and rows of that many arbitrary cells is read by `CsvfileReader`
    as exactly those fields and, per row, exactly those cell texts — quoting is undone for all cell contents. -/
theorem C20_csv_read (d : Ch) (hd : DelimOk d) (lt : List Ch) (hlt : LtOk lt) (hdr : List Name) (rows : List Row)
    (hsafe : ∀ row ∈ hdr :: rows, ∀ c ∈ row, SafeCell lt c)
    (hnames : ∀ n ∈ hdr, n.head? ≠ some 95) (hnodup : hdr.Nodup) (hlen : ∀ row ∈ rows, row.length = hdr.length) :
    csvRead d (writeRows d lt (hdr :: rows)) = some (hdr, rows.map (fun row => row.map some)) := by
  have hfilter : hdr.filter (fun n => n.head? != some 95) = hdr := by
    apply List.filter_eq_self.mpr
    intro n hn
    simpa using hnames n hn
  simp only [csvRead, C20_csv_roundtrip d hd lt hlt (hdr :: rows) hsafe, hfilter]
  congr 2
  apply List.map_congr_left
  intro row hrow
  exact zip_lookup hdr row hnodup (hlen row hrow)

/-- Line writer: block k (counting from 1) is the record's block numbered k — the counter fold has the closed
    form "k-th record gets number k" for every record sequence. -/
theorem C20_line (sel : Sel) (verbose : Bool) (recs : List Rec) :
    lineOut sel verbose 0 recs = recs.zipIdx.flatMap (fun p => lineBlock sel verbose (p.2 + 1) p.1) :=
  lineOut_closed sel verbose recs 0

/-- A block is its numbered header followed by exactly one `name = value` entry per selected field, in selection
    order, and all `=` signs of a block are aligned: every entry's key column is exactly the block width. -/
theorem C20_line_block (sel : Sel) (verbose : Bool) (k : Nat) (r : Rec) :
    let rdict := asdict sel.fields sel.exclude r.slots
    let w := width verbose r rdict
    lineBlock sel verbose k r
      = lineHeader k ++ rdict.flatMap (fun p => padLeft w (keyText verbose r p.1) ++ ofString " = " ++ p.2 ++ [LF]) ∧
    ∀ p ∈ rdict, (padLeft w (keyText verbose r p.1)).length = w := by
  intro rdict w
  refine ⟨rfl, ?_⟩
  intro p hp
  apply padLeft_length
  cases verbose with
  | false =>
    simp only [w, width, keyText, Bool.false_eq_true, if_false]
    exact le_maxList _ _ ((List.mem_map (f := fun q : Name × Cell => q.1.length)).mpr ⟨p, hp, rfl⟩)
  | true =>
    simp only [w, width, keyText, if_true]
    have := le_maxList _ _
      ((List.mem_map (f := fun q : Name × Cell => (q.1 ++ typeOf r q.1).length)).mpr ⟨p, hp, rfl⟩)
    have e1 : (ofString Gen.lineVerboseOpen).length = 2 := by decide
    have e2 : (ofString Gen.lineVerboseClose).length = 1 := by decide
    have e3 : Gen.lineVerboseWidthExtra = 3 := by decide
    simp only [List.length_append, e1, e2, e3] at this ⊢
    omega

/-- Text writer with a template: for EVERY template (any literal text incl. braces, any sequence of placeholders
    whose names are plain keys) the output is the template with every known field substituted by the text of its
    value and every unknown placeholder kept verbatim (`DefaultMissing`), nothing else changed. -/
theorem C20_text (lk : Name → Option Cell) (ps : List Piece) (h : PiecesOk ps) :
    formatMap lk (unparse ps) = .ok (ps.flatMap (expand lk)) ∧
    (∀ n v, lk n = some v → expand lk (.field n) = v) ∧
    (∀ n, lk n = none → expand lk (.field n) = LBRACE :: (n ++ [RBRACE])) := by
  refine ⟨?_, ?_, ?_⟩
  · have := frun_unparse lk ps [] h
    simp [formatMap, fstart, this]
  · intro n v hv; simp [expand, expandName, hv]
  · intro n hn
    have : ofString Gen.textMissingWrap = [LBRACE, RBRACE] := by decide
    simp [expand, expandName, hn, missingText, this]

/-- Text writer without a template writes `repr(record)` and a newline, and `repr` has the shape
    `<name k1=v1 k2=v2 ...>` over the declared fields in order (format strings as extracted). -/
theorem C20_text_repr (lk : Name → Option Cell) (name : Name) (k1 v1 k2 v2 : List Ch) (reprText : List Ch) :
    textRecord none lk reprText = .ok (reprText ++ [LF]) ∧
    reprRecord name [] = ofString "<" ++ name ++ ofString " >" ∧
    reprRecord name [(k1, v1), (k2, v2)]
      = ofString "<" ++ name ++ ofString " " ++ k1 ++ ofString "=" ++ v1 ++ ofString " " ++ k2 ++ ofString "=" ++ v2
        ++ ofString ">" := by
  refine ⟨rfl, ?_, ?_⟩
  · simp [reprRecord, Gen.reprOuterFormat, Gen.reprSeparator, ofString, fillPositional, joinWith, LBRACE, RBRACE]
  · simp [reprRecord, Gen.reprOuterFormat, Gen.reprSeparator, Gen.reprItemFormat, ofString, fillPositional, joinWith,
      LBRACE, RBRACE]

/-- Inst: the shapes the models transcribe are the ones in the source now (regenerated on every run): `DictWriter`
    receives only `lineterminator` (so: excel dialect, `,`, `"`, QUOTE_MINIMAL), the default terminator and the
    escape table, files are opened with `newline=""` and `errors="surrogateescape"` for writing and reading, the
    header test, `_asdict`, the line writer's and `__repr__`'s format strings. -/
theorem C20_inst :
    Gen.csvDictWriterArgs = ["self.fp", "rdict"] ∧
    Gen.csvDictWriterKwargs = [("lineterminator", "self.lineterminator")] ∧
    Gen.csvDefaultLineTerminator = "\r\n" ∧
    Gen.csvLineTerminatorEscapes = [("\\r", "\r"), ("\\n", "\n"), ("\\t", "\t")] ∧
    Gen.csvWriterOpenMode = "w" ∧ Gen.csvWriterOpenNewline = "" ∧ Gen.csvWriterOpenErrors = "surrogateescape" ∧
    Gen.csvReaderOpenNewline = "" ∧ Gen.csvReaderOpenErrors = "surrogateescape" ∧
    Gen.csvReaderFieldSteps = ["self.fields = fields.split(',')", "self.fields = next(self.reader)",
      "self.fields = [normalize_fieldname(col) for col in self.fields]",
      "self.desc = RecordDescriptor('csv/reader', [('string', col) for col in self.fields if not col.startswith('_')])"] ∧
    Gen.csvHeaderTest = "not self.desc or self.desc != r._desc" ∧
    Gen.csvHeaderBody = ["self.desc = r._desc",
      "self.writer = csv.DictWriter(self.fp, rdict, lineterminator=self.lineterminator)",
      "self.writer.writeheader()"] ∧
    Gen.csvWriteBody = ["rdict = r._asdict(fields=self.fields, exclude=self.exclude)", "self.writer.writerow(rdict)"] ∧
    Gen.asdictBody = ["exclude = exclude or []",
      "if fields:\n    return OrderedDict(((k, getattr(self, k)) for k in fields if k in self.__slots__ and k not in exclude))",
      "return OrderedDict(((k, getattr(self, k)) for k in self.__slots__ if k not in exclude))"] ∧
    Gen.lineHeaderPrefix = "--[ RECORD " ∧ Gen.lineHeaderSuffix = " ]--\n" ∧ Gen.lineEntryAlign = ">" ∧
    Gen.lineEntrySep = " = " ∧ Gen.lineEntryEnd = "\n" ∧ Gen.lineWidthPlain = "max((len(k) for k in rdict))" ∧
    Gen.lineCountIncrement = "self.count += 1" ∧
    Gen.lineEncodeCalls = ["fmt.format(key, value).encode(errors='surrogateescape')"] ∧
    Gen.textReplaceList = [("\\r", "\r"), ("\\n", "\n"), ("\\t", "\t")] ∧
    Gen.textWriteBody = ["if self.format_spec:\n    buf = self.format_spec.format_map(DefaultMissing(rec._asdict()))\nelse:\n    buf = repr(rec)",
      "self.fp.write(buf.encode(errors='surrogateescape') + b'\\n')"] ∧
    Gen.reprOuterFormat = "<{} {}>" ∧ Gen.reprOuterArg0 = "self._desc.name" ∧ Gen.reprItemFormat = "{}={!r}" ∧
    Gen.reprItemArgs = ["k", "getattr(self, k)"] ∧ Gen.reprIterates = "self._desc.fields" :=
  ⟨rfl, rfl, rfl, rfl, rfl, rfl, rfl, rfl, rfl, rfl, rfl, rfl, rfl, rfl, rfl, rfl, rfl, rfl, rfl, rfl, rfl, rfl, rfl, rfl, rfl, rfl, rfl, rfl, rfl⟩

-- Non-vacuity: the hypotheses are met by concrete non-trivial inputs, and the model computes what CPython does.
namespace C20_nonvacuous
def hello : Cell := ofString "he said \"hi\", twice\r\nbye"
example : parse COMMA (writeRows COMMA [CR, LF] [[hello, [], ofString "x"], [], [[]]]) =
    ([[hello, [], ofString "x"], [], [[]]], false) := by decide
example : writeRow COMMA [LF] [ofString "a\rb", ofString "c\nd"] = ofString "a\rb,\"c\nd\"\n" := by decide
example : parse COMMA (ofString "a\rb\n") = ([[ofString "a"], [ofString "b"]], false) := by decide
example : SafeCell [LF] (ofString "two\nlines") := by decide
example : PiecesOk [.lit (ofString "{x} "), .field (ofString "name"), .field (ofString "nope")] :=
  ⟨⟨by decide, by decide, by decide⟩, ⟨by decide, by decide, by decide⟩, trivial⟩
example : formatMap (fun n => if n = ofString "name" then some (ofString "V") else none)
    (ofString "{{x}} {name}{nope}") = .ok (ofString "{x} V{nope}") := by rfl
def r1 : Rec := ⟨ofString "t/a", [(ofString "string", ofString "s")], [(ofString "s", ofString "v1")]⟩
def r2 : Rec := ⟨ofString "t/b", [(ofString "string", ofString "s")], [(ofString "s", ofString "v2")]⟩
example : csvRows ⟨none, []⟩ none [r1, r1, r2, r1] =
    [[ofString "s"], [ofString "v1"], [ofString "v1"], [ofString "s"], [ofString "v2"], [ofString "s"], [ofString "v1"]] := by
  decide
end C20_nonvacuous
